/* native witness for C15 (exclusive arena memory adopted by the main heap on a forced collect), built against the CURRENT /repo sources */
#include "src/static.c"
#include <stdio.h>
#include <pthread.h>
#include <sys/mman.h>
static mi_arena_id_t aid; static void* keep[1000];
static void* worker(void* a) { (void)a; mi_heap_t* h = mi_heap_new_in_arena(aid);
  for (int i = 0; i < 1000; i++) keep[i] = mi_heap_malloc(h, 200);
  for (int i = 0; i < 1000; i++) if (i % 10) mi_free(keep[i]);
  return NULL; }          /* exits with live blocks: its segment is abandoned */
int main(void) {
  size_t n = ((size_t)256 << 20) + ((size_t)64 << 20);
  void* base = mmap(NULL, n, PROT_READ|PROT_WRITE, MAP_PRIVATE|MAP_ANONYMOUS, -1, 0);
  if (base == MAP_FAILED || !mi_manage_os_memory_ex(base, n, true, false, true, -1, true /* exclusive */, &aid)) { printf("REPLAY-NOT-REPRODUCED cannot set up the arena\n"); return 2; }
  size_t sz = 0; char* start = (char*)mi_arena_area(aid, &sz);
  pthread_t t; pthread_create(&t, NULL, worker, NULL); pthread_join(t, NULL);
  mi_collect(true);
  int inside = 0;
  for (int i = 0; i < 5000; i++) { char* p = (char*)mi_malloc(200); if (p >= start && p < start + sz) inside++; }
  printf("default-heap blocks inside the exclusive arena: %d of 5000\n", inside);
  if (inside > 0) { printf("REPLAY-CONFIRMED memory of an exclusive arena was given to a heap that is not bound to it\n"); return 1; }
  printf("REPLAY-NOT-REPRODUCED\n"); return 0;
}
