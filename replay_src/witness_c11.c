/* native witness for C11 (unmap on free): built against the CURRENT /repo sources (static.c = the whole library).
   Allocates/frees/collects a 1 GiB block 3 times and compares the process's mapped size. */
#include "src/static.c"
#include <stdio.h>
#include <string.h>
static long vmsize_kb(void) {
  FILE* f = fopen("/proc/self/status", "r"); char line[256]; long v = -1;
  while (f && fgets(line, sizeof line, f)) { if (!strncmp(line, "VmSize:", 7)) { sscanf(line + 7, "%ld", &v); break; } }
  if (f) fclose(f);
  return v;
}
int main(int argc, char** argv) {
  (void)argc; (void)argv;
  mi_free(mi_malloc(100));
  long before = vmsize_kb();
  for (int i = 0; i < 3; i++) {
    size_t n = (size_t)1 << 30; char* p = (char*)mi_malloc(n);
    if (!p) { printf("REPLAY-NOT-REPRODUCED allocation failed\n"); return 2; }
    p[0] = 1; p[n - 1] = 2; mi_free(p); mi_collect(true);
  }
  long after = vmsize_kb();
  printf("VmSize before=%ld KiB after=%ld KiB\n", before, after);
  if (after - before > 512 * 1024) { printf("REPLAY-CONFIRMED freed huge blocks are still mapped after mi_collect(true) (+%ld KiB)\n", after - before); return 1; }
  printf("REPLAY-NOT-REPRODUCED mapped size returned to its level\n");
  return 0;
}
