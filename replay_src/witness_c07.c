/* native witness for C07 (one refused commit on a huge arena allocation), built against the CURRENT /repo sources.
   The OS refuses exactly one request: the first mprotect(RW) of >= 32 MiB. */
#include <sys/mman.h>
#include <sys/wait.h>
#include <unistd.h>
#include <errno.h>
#include <stddef.h>
static int my_mprotect(void* a, size_t n, int prot);
#define mprotect my_mprotect
#include "src/static.c"
#undef mprotect
#include <stdio.h>
#include <string.h>
static int armed, failed;
static int my_mprotect(void* a, size_t n, int prot) {
  if (armed && !failed && prot == (PROT_READ|PROT_WRITE) && n >= ((size_t)32 << 20)) { failed = 1; errno = ENOMEM; return -1; }
  return mprotect(a, n, prot);
}
int main(void) {
  fflush(stdout);
  pid_t pid = fork();
  if (pid == 0) {
    mi_option_set(mi_option_arena_eager_commit, 0);
    mi_free(mi_malloc(100));
    armed = 1;
    char* p = (char*)mi_malloc((size_t)40 << 20);
    if (p != NULL) { p[0] = 1; p[((size_t)40 << 20) - 1] = 2; mi_free(p); }
    _exit(p == NULL ? 10 : 0);     /* NULL (clean failure) and a usable block are both acceptable */
  }
  int st = 0; waitpid(pid, &st, 0);
  if (WIFSIGNALED(st)) { printf("REPLAY-CONFIRMED one refused commit crashes mi_malloc(40 MiB): child died with signal %d\n", WTERMSIG(st)); return 1; }
  printf("REPLAY-NOT-REPRODUCED child exited normally (status %d)\n", WEXITSTATUS(st));
  return 0;
}
