/* native witness for C04 (zero slack after rezalloc chains), built against the CURRENT /repo sources. */
#include "src/static.c"
#include <stdio.h>
#include <string.h>
static int chain(int variant) {
  int bad = 0;
  void* d[64];
  for (int i = 0; i < 64; i++) { d[i] = mi_malloc(100); memset(d[i], 0xAB, mi_usable_size(d[i])); }
  for (int i = 0; i < 64; i++) mi_free(d[i]);
  for (int r = 0; r < 64; r++) {
    unsigned char* p  = (unsigned char*)(variant == 0 ? mi_zalloc(8) : mi_zalloc_aligned(10, 4096));
    unsigned char* p2 = (unsigned char*)mi_rezalloc(p, 100);      /* moves into a recycled dirty block */
    unsigned char* p3 = (unsigned char*)mi_rezalloc(p2, 110);     /* grows in place */
    for (size_t k = 100; k < 110; k++) if (p3[k] != 0) { bad++; break; }
  }
  return bad;
}
int main(void) {
  int a = chain(0), b = chain(1);
  printf("dirty growth: chain zalloc(8)->rezalloc(100)->rezalloc(110): %d/64, chain zalloc_aligned(10,4096)->...: %d/64\n", a, b);
  if (a || b) { printf("REPLAY-CONFIRMED bytes between the previous and the new requested size are not zero after rezalloc\n"); return 1; }
  printf("REPLAY-NOT-REPRODUCED all grown bytes read as zero\n");
  return 0;
}
