#!/bin/sh
# usage: tools/try_seed.sh <property> <patch.diff> [extra vc.py args]  -- runs the check against a scratch worktree with the patch
set -e
P=$1; PATCH=$(realpath $2); shift 2
WT=/tmp/wt/seedtest
if [ ! -d $WT ]; then git -C /repo worktree add --detach $WT HEAD >/dev/null 2>&1; fi
git -C $WT checkout -q --detach $(git -C /repo rev-parse HEAD) 2>/dev/null; git -C $WT checkout -q -- . ; git -C $WT apply $PATCH
cd /verif; VC_REPO=$WT python3 vc.py $P quick "$@" || true
git -C $WT checkout -q -- .
