#!/bin/sh
# thorough tier of every property, from the snapshot; results are not evidence (re-run in /verif for that)
for p in C16 C19 C06 C11 C10 C05 C04 C01 C17 C02 C08 C15 C18 C13 C07 C09 C20 C14 C03 C12; do
  VC_JOBS=6 python3 vc.py $p thorough > thorough_$p.log 2>&1; echo "$p exit=$? $(tail -1 thorough_$p.log)"
done
