#!/bin/sh
# thorough tier of every property, from the snapshot; results are not evidence (re-run in /verif for that)
for p in C20 C03 C01 C09 C10 C11 C12 C13 C14 C15 C18 C06 C08 C04 C05 C07 C16 C17 C19 C02; do
  VC_JOBS=12 python3 vc.py $p thorough > thorough_$p.log 2>&1; echo "$p exit=$? $(tail -1 thorough_$p.log)"
done
