#!/usr/bin/env python3
"""confirm every seeded change in a scratch worktree of /repo (never in /repo itself):
   patch applies, library builds, the 61 existing tests pass WITH the change, the demonstration fails with it and passes without it.
   Writes /verif/seeded/<prop>-<X>/{patch.diff,demo.*,meta.json}."""
import os, subprocess, json, shutil, sys, glob
RAW = "/verif/seeded/raw"; OUT = "/verif/seeded"; WT = "/tmp/wt/confirm"
def sh(cmd, cwd=None, timeout=1800):
    p = subprocess.run(cmd, shell=True, cwd=cwd, capture_output=True, text=True, timeout=timeout)
    return p.returncode, (p.stdout + p.stderr)[-1500:]
def demo_cmd(prop, x, src):
    base = "gcc -O1 -I include %s _build/libmimalloc.a -lpthread -o /tmp/wt/confirm_demo" % src
    if prop in ("C02", "C08"): return "gcc -O1 -DNDEBUG -I include -I src %s -lpthread -o /tmp/wt/confirm_demo" % src
    if prop == "C17": return "gcc -O1 -DNDEBUG -DMI_SECURE=4 -I include -I src %s -lpthread -o /tmp/wt/confirm_demo" % src
    if prop == "C07": return base + " -Wl,--wrap=mmap,--wrap=munmap,--wrap=mprotect,--wrap=madvise"
    if prop == "C14" and x == "A": return base + " -Wl,--wrap=madvise"
    return base
def build(): return sh("cmake -G Ninja -B _build -DCMAKE_BUILD_TYPE=Release >/dev/null && cmake --build _build -j8 2>&1 | tail -3", WT)
def main():
    only = sys.argv[1:] 
    head = subprocess.check_output(["git", "-C", "/repo", "rev-parse", "HEAD"], text=True).strip()
    if not os.path.isdir(WT): sh("git -C /repo worktree add --detach %s HEAD" % WT)
    sh("git checkout -q --detach %s && git checkout -q -- . && git clean -fdq -e _build" % head, WT)
    rows = []
    for d in sorted(glob.glob(RAW + "/*/*")):
        prop, x = d.split("/")[-2:]
        if only and (prop + "-" + x) not in only and prop not in only: continue
        meta = {"property": prop, "id": "%s-%s" % (prop, x), "base_commit": head, "steps": {}}
        patch = os.path.join(d, "patch.diff")
        sh("git checkout -q -- .", WT)
        rc, out = sh("git apply --check %s && git apply %s" % (patch, patch), WT); meta["steps"]["apply"] = rc == 0
        if rc != 0: meta["error"] = out; rows.append(meta); continue
        rc, out = build(); meta["steps"]["build_with_change"] = rc == 0
        rc, out = sh("ctest --test-dir _build -j8 --timeout 900 2>&1 | tail -4", WT); meta["steps"]["tests_pass_with_change"] = ("100% tests passed" in out); meta["ctest_tail"] = out[-300:]
        demo = "demo.c" if os.path.exists(os.path.join(d, "demo.c")) else None
        cmd = demo_cmd(prop, x, os.path.join(d, demo))
        rc, out = sh(cmd, WT); meta["steps"]["demo_builds"] = rc == 0; meta["demo_build_cmd"] = cmd
        rcs = []
        for i in range(3):
            rc, out = sh("/tmp/wt/confirm_demo", WT, timeout=600); rcs.append(rc)
        meta["demo_with_change_exit"] = rcs; meta["steps"]["demo_fails_with_change"] = any(r != 0 for r in rcs); meta["demo_output_with_change"] = out[-400:]
        sh("git checkout -q -- .", WT)
        rc, out = build(); meta["steps"]["build_without_change"] = rc == 0
        rc, out = sh(cmd, WT)
        rcs = []
        for i in range(3):
            rc, out = sh("/tmp/wt/confirm_demo", WT, timeout=600); rcs.append(rc)
        meta["demo_without_change_exit"] = rcs; meta["steps"]["demo_passes_without_change"] = all(r == 0 for r in rcs)
        meta["confirmed"] = all(meta["steps"].values())
        readme = open(os.path.join(d, "README.txt")).read() if os.path.exists(os.path.join(d, "README.txt")) else ""
        meta["what_it_needs_to_manifest"] = readme[:1500]
        meta["what_i_ran"] = ["git apply patch.diff (scratch worktree %s)" % WT, "cmake -G Ninja -B _build && cmake --build _build", "ctest --test-dir _build -j8", cmd, "demo x3 with the change, x3 without"]
        if meta["confirmed"]:
            o = os.path.join(OUT, "%s-%s" % (prop, x)); os.makedirs(o, exist_ok=True)
            for f in os.listdir(d):
                if os.path.isfile(os.path.join(d, f)) and not f.endswith(".log") and os.path.getsize(os.path.join(d, f)) < 200000 and not os.access(os.path.join(d, f), os.X_OK):
                    shutil.copy(os.path.join(d, f), o)
            json.dump(meta, open(os.path.join(o, "meta.json"), "w"), indent=1)
        rows.append(meta)
        print(meta["id"], "CONFIRMED" if meta["confirmed"] else "NOT-CONFIRMED " + str({k: v for k, v in meta["steps"].items() if not v}), flush=True)
    json.dump(rows, open(os.path.join(OUT, "confirm_log.json"), "w"), indent=1)
if __name__ == "__main__": main()
