#!/usr/bin/env python3
"""assemble DESIGN.md = DESIGN_PART1.md (as built, with the seed table filled from seeded/matrix.json) + DESIGN_PART2.md (pre-build design)."""
import json, os
V = "/verif"
m = json.load(open(os.path.join(V, "seeded", "matrix.json")))
notes = json.load(open(os.path.join(V, "seeded", "notes.json"))) if os.path.exists(os.path.join(V, "seeded", "notes.json")) else {}
rows = ["| seed | file changed | caught by (first failing obligation of the quick check) | note |", "|---|---|---|---|"]
for sid in sorted(m):
    v = m[sid]
    patch = open(os.path.join(V, "seeded", sid, "patch.diff")).read()
    files = sorted(set(l.split(" b/")[1] for l in patch.splitlines() if l.startswith("diff --git")))
    if v["caught_by"]:
        p = v["caught_by"][0]; ob = v["detail"][p]["violations"][0]
        caught = "%s: `%s`" % (p, ob.split("/", 2)[2] if ob.count("/") >= 2 else ob)
    else:
        caught = "**not by the quick check**"
    rows.append("| %s | %s | %s | %s |" % (sid, ", ".join(files), caught, notes.get(sid, "")))
PART2_NOTE = """Read with these corrections in mind (details in Part I):
* "plan.json", cover runs and canary builds (II.3) do not exist: plans are `plan/*.py`, vacuity is the `VC_REACH` assertion plus required obligation ids (I.3).
* II.6: native witnesses are `replay_src/witness_c*.c` (compiled and run by the runner when their obligation fails), not `replay/witness_F-*.c`.
* II.7 is the plan per property; what is actually under contract is I.4 and INVENTORY.md. In particular the ghost-rank list invariant and the
  full segment partition invariant of II.4.1 were not built, and the geometry enumeration of II.2.1 became per-slice-index runs.
* II.8 describes the five defects as found on the original tree with the *planned* repairs; they are repaired (I.5).
* II.9: the guard name in MANIFEST.hooks is a placeholder (no hooks); tiers, K values and timings are those of STATUS.md / INVENTORY.md.

"""
p1 = open(os.path.join(V, "DESIGN_PART1.md")).read().replace("SEEDTABLE", "\n".join(rows))
p2 = open(os.path.join(V, "DESIGN_PART2.md")).read()
open(os.path.join(V, "DESIGN.md"), "w").write(p1 + "\n\n" + "=" * 92 + "\n\n# Part II — the design as written before the build (kept for reference; Part I overrides)\n\n" + PART2_NOTE + p2)
print("DESIGN.md written", len(p1.splitlines()) + len(p2.splitlines()), "lines")
