#!/usr/bin/env python3
"""regenerates MANIFEST.json from tools/claims.json (per-property level text / notes) -- keeps the manifest valid"""
import json, os
V = os.path.dirname(os.path.dirname(os.path.abspath(__file__)))
props = [json.loads(l) for l in open(os.path.join(V, "properties.jsonl"))]
claims = json.load(open(os.path.join(V, "tools", "claims.json")))
m = {"version": 1, "setup_cmd": "./setup.sh",
     "hooks": {"guard": "MI_VERIF_CBMC",
               "enable": "no hooks: /repo is compiled unmodified by goto-cc; contracts are attached from /verif (contract-carrying declarations merged with the real definitions, --loop-contracts-file for loops). -DVC_CBMC is defined only for /verif's own headers; nothing in /repo reads MI_VERIF_CBMC.",
               "baseline_off_cmd": "cmake --build /repo/_build && ctest --test-dir /repo/_build -j8 --timeout 900",
               "source_commits": [], "add_only": True},
     "engines": [{"name": "vc", "path": "/verif/vc.py", "serves_properties": sorted(claims["claimed"].keys()),
                  "kind_free_text": "CBMC 6.11 code contracts (goto-instrument --dfcc: --enforce-contract on the function, --replace-call-with-contract on its callees, loop contracts from --loop-contracts-file) on the real C translation units of /repo; SAT back ends minisat/cadical"}],
     "checks": [], "notes": "see DESIGN.md; fix commits in /repo: d6d1025 0efc21e 13cbe8b cd232c0 957f191 (known_findings.json)", "not_applicable": []}
for p in props:
    pid = p["id"]
    if pid in claims["claimed"]:
        c = claims["claimed"][pid]
        m["checks"].append({"property_id": pid, "quick_cmd": "./check %s quick" % pid, "thorough_cmd": "./check %s thorough" % pid,
            "evidence_file": "/verif/evidence/%s.json" % pid, "replay_cmd_template": "./check --replay {path}", "engine": "vc",
            "level_claimed": {"category": c.get("category", "proof"), "text": c["text"], "design_ref": "DESIGN.md Part I section I.4 (as built) and Part II section 7 (plan), " + pid},
            "level_note": c["note"], "technique": c.get("technique", "CBMC function contracts (dfcc) on the real code")})
    else:
        m["not_applicable"].append({"property_id": pid, "reason": claims["not_claimed"].get(pid, "check not built yet in this session (contracts planned in DESIGN.md section 7); not claimed")})
json.dump(m, open(os.path.join(V, "MANIFEST.json"), "w"), indent=1)
print("claimed:", sorted(claims["claimed"].keys()))
