#!/usr/bin/env python3
"""run the quick check of the targeted property (plus listed related properties) against every confirmed seeded change, in a scratch
worktree of /repo (VC_REPO); record which obligation reports it.  Output: /verif/seeded/matrix.json"""
import os, subprocess, json, glob, re, sys
V = "/verif"; WT = "/tmp/wt/seedtest"
RELATED = {}     # only the target property's own quick check is run
def main():
    head = subprocess.check_output(["git", "-C", "/repo", "rev-parse", "HEAD"], text=True).strip()
    if not os.path.isdir(WT): subprocess.call("git -C /repo worktree add --detach %s HEAD" % WT, shell=True)
    subprocess.call("git -C %s checkout -q --detach %s; git -C %s checkout -q -- ." % (WT, head, WT), shell=True)
    out = {}
    mpath = os.path.join(V, "seeded", "matrix.json")
    if os.path.exists(mpath): out = json.load(open(mpath))
    only = sys.argv[1:]
    for d in sorted(glob.glob(V + "/seeded/C*-*")):
        sid = os.path.basename(d); prop = sid.split("-")[0]
        if only and sid not in only: continue
        if sid in out and not only: continue
        subprocess.call("git -C %s checkout -q -- . && git -C %s apply %s/patch.diff" % (WT, WT, d), shell=True)
        res = {}
        for p in [prop] + RELATED.get(sid, []):
            env = dict(os.environ, VC_REPO=WT)
            r = subprocess.run(["python3", os.path.join(V, "vc.py"), p, "quick"], env=env, capture_output=True, text=True, cwd=V)
            viol = re.findall(r"VIOLATION property=\S+ replay=\S+ obligation=(\S+)", r.stdout)
            und = re.findall(r"UNDECIDED property=\S+ pair=(\S+) status=(\S+)", r.stdout)
            res[p] = {"exit": r.returncode, "violations": viol[:6], "undecided": und[:6]}
            if viol: break
        caught = [p for p, v in res.items() if v["violations"]]
        out[sid] = {"caught_by": caught, "detail": res}
        print(sid, "CAUGHT by " + ",".join(caught) + " " + str(res[caught[0]]["violations"][:2]) if caught else "MISSED " + str({p: (v["exit"], v["undecided"][:2]) for p, v in res.items()}), flush=True)
        json.dump(out, open(mpath, "w"), indent=1)
    subprocess.call("git -C %s checkout -q -- ." % WT, shell=True)
if __name__ == "__main__": main()
