#!/bin/sh
# offline setup: nothing to build; verify the tools the checks need are present.
set -e
cd "$(dirname "$0")"
for t in cbmc goto-cc goto-instrument gcc python3; do command -v $t >/dev/null || { echo "missing $t"; exit 1; }; done
cbmc --version
mkdir -p .build evidence replay
echo setup-ok
