import alloc_common, aligned_common
A = alloc_common.pairs(); B = aligned_common.pairs()
PAIRS = [A[k] for k in ("realloc_zero", "recalloc", "fwd_rezalloc")] + [v for k, v in B.items() if k.startswith("realloc_aligned_") or k.startswith("overalloc_")]
# the allocation path itself: zeroing by the page allocator, and for huge pages over the whole usable block afterwards
import page_common
PAIRS += [page_common.pairs()["page_malloc"]] + page_common.malloc_generic_pairs()
PAIRS += alloc_common.dispatch_pairs()      # entry of every allocation: the zero flag and the size reach the page layer / the generic path unchanged; mi_heap_zalloc asks for zeroing
