import alloc_common
A = alloc_common.pairs()
PAIRS = [A[k] for k in ("realloc_zero", "recalloc", "fwd_rezalloc")]
