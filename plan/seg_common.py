HS = "harness/seg_purge.c"
OPT = ["mi_option_get", "mi_option_is_enabled", "mi_option_get_clamp"]
STUBS = ["_mi_os_purge", "_mi_os_commit", "_mi_clock_now", "_mi_preloading"] + OPT
NOPTR = ["--no-pointer-check"]     # header-only segment object, see plan/C18.py
def pairs():
    P = lambda n, e, f, rep, **kw: dict(dict(name=n, entry=e, harness=HS, enforce=f, replace=rep + STUBS, config="SCALED", label="PC", functions=[f], timeout=600, cbmc_flags=NOPTR, unwind=14, unwindset={"_mi_commit_mask_committed_size.0": 66, "_mi_commit_mask_committed_size.1": 66}), **kw)
    return {
      "seg_commit_mask": P("seg_commit_mask", "h_commit_mask", "mi_segment_commit_mask", []),
      "seg_purge": P("seg_purge", "h_purge", "mi_segment_purge", []),
      "seg_commit": P("seg_commit", "h_commit", "mi_segment_commit", []),
      "segment_os_alloc": dict(name="segment_os_alloc", entry="h_segment_os_alloc", harness="harness/seg_alloc.c", enforce="mi_segment_os_alloc", config="SCALED", label="PC", unwind=14,
                  replace=["_mi_arena_alloc_aligned", "_mi_os_commit/c_os_commit_rec2", "_mi_arena_free", "mi_segments_track_size", "_mi_segment_map_allocated_at"] + OPT,
                  functions=["mi_segment_os_alloc"], timeout=600, cbmc_flags=NOPTR),
      "seg_ensure_committed": P("seg_ensure_committed", "h_ensure_committed", "mi_segment_ensure_committed", ["mi_segment_commit/c_seg_commit_rec"]),
    }
