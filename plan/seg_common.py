HS = "harness/seg_purge.c"
OPT = ["mi_option_get", "mi_option_is_enabled", "mi_option_get_clamp", "_mi_option_get_fast"]
STUBS = ["_mi_os_purge", "_mi_os_commit", "_mi_clock_now", "_mi_preloading"] + OPT
NOPTR = ["--no-pointer-check"]     # header-only segment object, see plan/C18.py
RECL = ["_mi_heap_memid_is_suitable", "_mi_arena_field_cursor_init", "_mi_arena_field_cursor_done",
        "mi_segment_check_free/c_check_free_rec", "mi_segment_reclaim/c_segment_reclaim_rec", "_mi_arena_segment_mark_abandoned", "mi_segment_try_purge/c_seg_try_purge_rec2",
        "_mi_arena_segment_clear_abandoned", "mi_segment_get_reclaim_tries/c_reclaim_tries_use"] + OPT
RK = 4      # bound of the walks over abandoned segments (segments the cursor yields)
def R(n, e, f, K=RK, **kw):
    # the walk over abandoned segments is unwound K+2 times (the cursor body yields at most K segments); 14 is for the contract library's own loops
    return dict(dict(name=n, entry=e, harness="harness/seg_reclaim.c", enforce=f, replace=RECL, config="SCALED", label=("B" if K else "P"), K=K, functions=[f], timeout=600, unwind=14,
                     defs=["-DVC_K=%d" % (K or 1)], objbits=(12 if (K or 1) > 4 else 10), unwindset={f + ".0": (K or 1) + 2}), **kw)
def span_allocate_pairs():
    # one run per slice index (see contracts/seg_span.h); quick: first page slice, an odd one, and two whose spans can exceed MI_MAX_SLICE_OFFSET_COUNT or reach the table end
    out = []
    for si in range(0, 64):
        out.append(dict(name="span_allocate_si%d" % si, entry="h_span_allocate", harness="harness/seg_span.c", enforce="mi_segment_span_allocate", config="SCALED", label="PC", unwind=14,
                  defs=["-DVC_SI=%d" % si, "-DVC_SPAN_NORMAL"], unwindset={"mi_segment_span_allocate.0": 34}, replace=["mi_segment_ensure_committed/c_ensure_committed_rec"],
                  functions=["mi_segment_span_allocate"], timeout=900, tier=("quick" if si in (1, 7, 30, 63) else "thorough")))
    for si in (1, 2, 3):      # the single page of a huge segment starts right behind the info slices
        out.append(dict(name="span_allocate_huge_si%d" % si, entry="h_span_allocate", harness="harness/seg_span.c", enforce="mi_segment_span_allocate", config="SCALED", label="PC", unwind=14,
                  defs=["-DVC_SI=%d" % si, "-DVC_SPAN_HUGE"], unwindset={"mi_segment_span_allocate.0": 34}, replace=["mi_segment_ensure_committed/c_ensure_committed_rec"],
                  functions=["mi_segment_span_allocate"], timeout=900, cbmc_flags=NOPTR, tier=("quick" if si == 1 else "thorough")))
    for si in range(0, 64):   # coalescing writes through the slice pointer: same per-index treatment
        out.append(dict(name="span_coalesce_si%d" % si, entry="h_coalesce", harness="harness/seg_span.c", enforce="mi_segment_span_free_coalesce", config="SCALED", label="P", unwind=14, defs=["-DVC_SI=%d" % si],
                  replace=["mi_segment_span_free/c_span_free_rec", "mi_segment_span_remove_from_queue/c_span_remove_rec"], functions=["mi_segment_span_free_coalesce", "mi_slice_first", "mi_slice_index"],
                  timeout=900, cbmc_flags=NOPTR, tier=("quick" if si in (0, 7, 30) else "thorough")))
    return out
def pairs():
    P = lambda n, e, f, rep, **kw: dict(dict(name=n, entry=e, harness=HS, enforce=f, replace=rep + STUBS, config="SCALED", label="PC", functions=[f], timeout=600, cbmc_flags=NOPTR, unwind=14, unwindset={"_mi_commit_mask_committed_size.0": 66, "_mi_commit_mask_committed_size.1": 66}), **kw)
    return {
      "seg_commit_mask": P("seg_commit_mask", "h_commit_mask", "mi_segment_commit_mask", []),
      "seg_purge": P("seg_purge", "h_purge", "mi_segment_purge", []),
      "seg_commit": P("seg_commit", "h_commit", "mi_segment_commit", []),
      "segment_os_alloc": dict(name="segment_os_alloc", entry="h_segment_os_alloc", harness="harness/seg_alloc.c", enforce="mi_segment_os_alloc", config="SCALED", label="PC", unwind=14,
                  replace=["_mi_arena_alloc_aligned", "_mi_os_commit/c_os_commit_rec2", "_mi_arena_free", "mi_segments_track_size", "_mi_segment_map_allocated_at"] + OPT,
                  functions=["mi_segment_os_alloc"], timeout=1500, cbmc_flags=NOPTR, replay={"src": "replay_src/witness_c07.c"}),
      "reclaim_all": R("reclaim_all", "h_reclaim_all", "_mi_abandoned_reclaim_all", replay={"src": "replay_src/witness_c15.c"}),
      "abandoned_collect": R("abandoned_collect", "h_abandoned_collect", "_mi_abandoned_collect", timeout=900),
      "try_reclaim": R("try_reclaim", "h_try_reclaim", "mi_segment_try_reclaim", timeout=900),
      "try_reclaim_k5": R("try_reclaim_k5", "h_try_reclaim", "mi_segment_try_reclaim", K=5, timeout=3000, tier="thorough", mem_gb=16),
      "attempt_reclaim": R("attempt_reclaim", "h_attempt_reclaim", "_mi_segment_attempt_reclaim", K=None),
      "span_page_of": dict(name="span_page_of", entry="h_span_page_of", harness="harness/seg_span.c", enforce=None, mode="dfcc", config="SCALED", label="P", unwind=14,
                  replace=["mi_segment_span_allocate", "mi_segment_ensure_committed/c_ensure_committed_rec"], functions=["_mi_segment_page_of"], timeout=600, cbmc_flags=NOPTR),
      "span_free": dict(name="span_free", entry="h_span_free", harness="harness/seg_span.c", enforce="mi_segment_span_free", config="SCALED", label="P", unwind=14,
                  replace=["mi_span_queue_push/c_sq_push_rec", "mi_segment_schedule_purge/c_schedule_purge_rec"], functions=["mi_segment_span_free", "mi_span_queue_for"], timeout=600),
      "slice_split": dict(name="slice_split", entry="h_slice_split", harness="harness/seg_span.c", enforce="mi_segment_slice_split", config="SCALED", label="P", unwind=14,
                  replace=["mi_segment_span_free/c_span_free_rec"], functions=["mi_segment_slice_split", "mi_slice_index"], timeout=600, cbmc_flags=NOPTR),
      "segment_os_free": dict(name="segment_os_free", entry="h_segment_os_free", harness="harness/seg_alloc.c", enforce="mi_segment_os_free", config="SCALED", label="PC", unwind=14,
                  unwindset={"_mi_commit_mask_committed_size.0": 66, "_mi_commit_mask_committed_size.1": 4},
                  replace=["_mi_arena_free/c_arena_free_rec2", "mi_segments_track_size/c_track_size_rec2", "_mi_segment_map_freed_at"], functions=["mi_segment_os_free", "_mi_commit_mask_committed_size"], timeout=600),
      "segment_page_free": dict(name="segment_page_free", entry="h_segment_page_free", harness="harness/seg_pagefree.c", enforce="_mi_segment_page_free", config="SCALED", label="P", unwind=14, cbmc_flags=NOPTR,
                  replace=["mi_segment_page_clear/c_page_clear_rec", "mi_segment_free/c_segment_free_rec", "mi_segment_abandon/c_segment_abandon_rec", "mi_segment_try_purge/c_seg_try_purge_rec3"], functions=["_mi_segment_page_free"], timeout=300),
      "segment_page_abandon": dict(name="segment_page_abandon", entry="h_segment_page_abandon", harness="harness/seg_pagefree.c", enforce="_mi_segment_page_abandon", config="SCALED", label="P", unwind=14, cbmc_flags=NOPTR,
                  replace=["mi_segment_abandon/c_segment_abandon_rec"], functions=["_mi_segment_page_abandon"], timeout=300),
      "page_clear": dict(name="page_clear", entry="h_page_clear", harness="harness/seg_pagefree.c", enforce="mi_segment_page_clear", config="SCALED", label="P", unwind=14, cbmc_flags=NOPTR,
                  replace=["mi_segment_span_free_coalesce/c_coalesce_rec", "mi_option_is_enabled", "_mi_os_reset"], functions=["mi_segment_page_clear"], timeout=300),
      "segment_free": dict(name="segment_free", entry="h_segment_free", harness="harness/seg_pagefree.c", enforce="mi_segment_free", config="SCALED", label="P", unwind=66, cbmc_flags=NOPTR,
                  loops="loops/segment_free.json", need_ids=["loop_invariant_step"],
                  replace=["mi_segment_os_free/c_segment_os_free_rec", "mi_segment_span_remove_from_queue/c_span_remove_rec2"], functions=["mi_segment_free"], timeout=600),
      "seg_ensure_committed": P("seg_ensure_committed", "h_ensure_committed", "mi_segment_ensure_committed", ["mi_segment_commit/c_seg_commit_rec"]),
    }
