H = "harness/posix.c"
def pairs():
    P = lambda n, f, rep: dict(name=n, harness=H, enforce=f, replace=rep, label="P", functions=[f])
    return [
      P("posix_memalign", "mi_posix_memalign", ["mi_malloc_aligned"]),
      P("pvalloc", "mi_pvalloc", ["mi_malloc_aligned", "_mi_os_page_size"]),
      P("valloc", "mi_valloc", ["mi_malloc_aligned", "_mi_os_page_size"]),
      P("memalign", "mi_memalign", ["mi_malloc_aligned"]),
      P("aligned_alloc", "mi_aligned_alloc", ["mi_malloc_aligned"]),
      P("reallocarray", "mi_reallocarray", ["mi_reallocn"]),
      P("reallocarr", "mi_reallocarr", ["mi_reallocn"]),
    ]
