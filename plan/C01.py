import page_common
A = page_common.pairs()
PAIRS = [A[k] for k in ("page_malloc", "free_block_local", "set_in_full", "set_has_aligned", "unfull", "to_full", "malloc_generic")] + page_common.extend_pairs()
