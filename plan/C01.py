import page_common
A = page_common.pairs()
PAIRS = [A[k] for k in ("page_malloc", "free_block_local", "set_in_full", "set_has_aligned", "unfull", "to_full")] + page_common.malloc_generic_pairs() + page_common.extend_pairs()
