import page_common
A = page_common.pairs()
PAIRS = [A[k] for k in ("page_malloc", "free_block_local", "set_in_full", "set_has_aligned", "unfull", "to_full")] + page_common.malloc_generic_pairs() + page_common.extend_pairs()
# live blocks survive the deletion of their heap: every page queue (including the full queue) is absorbed
import importlib.util as _u, os as _o
_s = _u.spec_from_file_location("plan_C10_for_C01", _o.path.join(_o.path.dirname(__file__), "C10.py")); _m = _u.module_from_spec(_s); _s.loader.exec_module(_m)
PAIRS += [p for p in _m.PAIRS if p["name"] in ("absorb", "delete")]
# pages of one segment do not overlap: splitting partitions a span, coalescing merges only FREE neighbours, a freed span is re-labelled as one span
import seg_common as _sc
PAIRS += [_sc.pairs()["slice_split"], _sc.pairs()["span_free"]] + [p for p in _sc.span_allocate_pairs() if p["name"].startswith("span_coalesce")]
PAIRS += page_common.queue_pairs()       # a page moved between queues stays in exactly one queue
import seg_common as _sc2
PAIRS += [_sc2.pairs()['page_clear']]      # a freed page is wiped (no stale list pointers), its span returned once, the segment counts one page less
import spanq_common as _sq
PAIRS += _sq.pairs()      # free-span queues: a span pushed is the first element of exactly that queue and marked free; a span deleted is unlinked, its neighbours are linked to each other, it is marked in use
