H = "harness/alloc.c"
MEM = ["_mi_memzero", "_mi_memcpy"]
CSO = "mi_count_size_overflow/c_count_size_overflow_use"   # enforced in pair count_size_overflow
def pairs():
    return {
    "realloc_zero": dict(name="realloc_zero", harness=H, enforce="_mi_heap_realloc_zero", label="P",
         replace=["mi_heap_malloc", "mi_free", "_mi_usable_size", "mi_usable_size"] + MEM,
         functions=["_mi_heap_realloc_zero"], min_obligations=14, timeout=300, replay={"src": "replay_src/witness_c04.c"}),
    "count_size_overflow": dict(name="count_size_overflow", harness=H, enforce="mi_count_size_overflow", label="P",
         replace=["mi_mul_overflow"], functions=["mi_count_size_overflow"]),
    "calloc": dict(name="calloc", harness=H, enforce="mi_heap_calloc", replace=["mi_heap_zalloc", CSO], label="P", functions=["mi_heap_calloc"]),
    "mallocn": dict(name="mallocn", harness=H, enforce="mi_heap_mallocn", replace=["mi_heap_malloc", CSO], label="P", functions=["mi_heap_mallocn"]),
    "reallocn": dict(name="reallocn", harness=H, enforce="mi_heap_reallocn", replace=["_mi_heap_realloc_zero/c_realloc_rec", CSO], label="P",
         functions=["mi_heap_reallocn", "mi_heap_realloc"]),
    "recalloc": dict(name="recalloc", harness=H, enforce="mi_heap_recalloc", replace=["_mi_heap_realloc_zero/c_realloc_rec", CSO], label="P",
         functions=["mi_heap_recalloc", "mi_heap_rezalloc"]),
    "reallocf": dict(name="reallocf", harness=H, enforce="mi_heap_reallocf", replace=["_mi_heap_realloc_zero/c_realloc_rec", "mi_free"], label="P",
         functions=["mi_heap_reallocf", "mi_heap_realloc"]),
    "fwd_realloc": dict(name="fwd_realloc", harness=H, enforce="mi_realloc", replace=["mi_heap_realloc/c_fwd_heap_p_size"], label="P", functions=["mi_realloc"]),
    "fwd_reallocf": dict(name="fwd_reallocf", harness=H, enforce="mi_reallocf", replace=["mi_heap_reallocf/c_fwd_heap_p_size"], label="P", functions=["mi_reallocf"]),
    "fwd_rezalloc": dict(name="fwd_rezalloc", harness=H, enforce="mi_rezalloc", replace=["mi_heap_rezalloc/c_fwd_heap_p_size"], label="P", functions=["mi_rezalloc"]),
    "expand": dict(name="expand", harness=H, enforce="mi_expand", replace=["_mi_usable_size"], label="P", functions=["mi_expand"]),
    }
def dispatch_pairs():
    # the entry of every allocation: which path, which arguments (contracts/malloc_dispatch.h)
    P = lambda n, f, rep, fs: dict(name=n, entry="h_" + n, harness=H, enforce=f, replace=rep, label="P", functions=fs, timeout=300)
    return [
        P("small_zero", "mi_heap_malloc_small_zero/c_small_zero_spec", ["_mi_page_malloc_zero/c_page_malloc_zero_rec"], ["mi_heap_malloc_small_zero", "_mi_heap_get_free_small_page", "_mi_wsize_from_size"]),
        P("malloc_zero_ex", "_mi_heap_malloc_zero_ex/c_malloc_zero_ex_spec", ["mi_heap_malloc_small_zero/c_small_zero_rec", "_mi_malloc_generic/c_malloc_generic_rec"], ["_mi_heap_malloc_zero_ex"]),
        P("malloc_zero", "_mi_heap_malloc_zero/c_malloc_zero_spec", ["_mi_heap_malloc_zero_ex/c_malloc_zero_ex_rec"], ["_mi_heap_malloc_zero"]),
        P("heap_malloc", "mi_heap_malloc", ["_mi_heap_malloc_zero/c_malloc_zero_rec"], ["mi_heap_malloc"]),
        P("heap_zalloc", "mi_heap_zalloc", ["_mi_heap_malloc_zero/c_malloc_zero_rec"], ["mi_heap_zalloc"]),
    ]
