H = "harness/c14_bitmap.c"
def RG(name, entry, **kw):
    # `m <<= shift` with shift == 64 in _mi_bitmap_try_find_claim_field (count 64, top bit set) is undefined behaviour on a
    # dead value (side observation, DESIGN.md section 8); a failed built-in check blocks later obligations, so this one check is off
    d = dict(name=name, entry=entry, harness=H, enforce=None, mode="plain", rg=True, label="B", K=2, timeout=600,
             cbmc_flags=["--no-undefined-shift-check"], unwindset={"_mi_bitmap_try_find_claim_field.0": 70})
    d.update(kw); return d
PAIRS = [
    RG("try_claim_unclaim", "h_try_claim", unwind=6, functions=["_mi_bitmap_try_claim", "_mi_bitmap_unclaim"]),
    dict(name="unclaim_across", entry="h_unclaim_across", harness=H, enforce=None, mode="plain", rg=True, label="PC", unwind=6,
         functions=["_mi_bitmap_unclaim_across", "mi_bitmap_mask_across"]),
    dict(name="claim_range_across", entry="h_claim_range_across", harness=H, enforce=None, mode="plain", rg=True, label="PC", unwind=6,
         functions=["_mi_bitmap_claim_across", "mi_bitmap_mask_across"]),
]
# multi-word claim geometry: concrete (idx, count), words and interference symbolic.  quick: word-boundary counts
QUICK_GEO = [(0, 3), (0, 63), (0, 64), (0, 65), (0, 127), (0, 128), (0, 129), (1, 70), (0, 192), (2, 3)]
ALL_GEO = [(i, c) for i in range(3) for c in list(range(3, 200, 7)) + [63, 64, 65, 127, 128, 129, 191, 192]]
for (i, c) in sorted(set(QUICK_GEO + ALL_GEO)):
    PAIRS.append(RG("claim_across_%d_%d" % (i, c), "h_claim_across", unwind=8, defs=["-DVC_IDX=%d" % i, "-DVC_COUNT=%d" % c], mode="dfcc",
                    replace=["_mi_bitmap_try_find_claim_field/c_claim_field_use"],
                    tier=("quick" if (i, c) in QUICK_GEO else "thorough"), functions=["mi_bitmap_try_find_claim_field_across"]))
# single-word claim, field index and count symbolic: the scan loop is closed by a loop contract (the CAS retry `continue` has no
# variant, so no decreases clause: lock-free retry does not terminate by a local measure)
PAIRS.append(RG("claim_field", "h_claim_field", unwind=14, mode="dfcc", loops="loops/c14_claim_field.json", need_ids=["loop_invariant_step"], label="RG", K=None, defs=["-DVC_K=1000000000"],   # interference unbounded: retries are covered by the invariant
                functions=["_mi_bitmap_try_find_claim_field", "mi_bitmap_mask_"]))
import arena_common
A = arena_common.pairs()
PAIRS += [A["try_alloc_at"], A["arena_free"], A["arena_try_purge"], A["purge_range"], A["arena_purge_seq"], A["bm_try_claim_seq"], A["bm_unclaim_seq"], A["bm_claim_seq"]]
