H = "harness/arena.c"
BM = ["_mi_bitmap_try_find_from_claim_across", "_mi_bitmap_claim_across", "_mi_bitmap_unclaim_across", "_mi_bitmap_is_claimed_across"]
OS = ["_mi_os_commit_ex", "_mi_os_purge", "_mi_os_purge_ex", "_mi_os_free", "_mi_clock_now", "_mi_preloading", "mi_option_get", "mi_option_is_enabled"]
def pairs():
    P = lambda n, f, rep, **kw: dict(dict(name=n, harness=H, enforce=f, replace=rep, label="P", objbits=12, functions=[f], timeout=600, unwind=40), **kw)
    return {
      "try_alloc_at": P("try_alloc_at", "mi_arena_try_alloc_at", BM + OS, min_obligations=12, solver="cadical"),
      "arena_purge": P("arena_purge", "mi_arena_purge", BM + OS),
      "arena_schedule_purge": P("arena_schedule_purge", "mi_arena_schedule_purge", BM + OS + ["mi_arena_purge/c_arena_purge_rec", "mi_arena_purge_delay/c_arena_purge_delay_use2"], entry="h_schedule_purge"),
      "arena_free": P("arena_free", "_mi_arena_free", BM + OS + ["mi_arena_schedule_purge/c_arena_schedule_purge_rec", "mi_arenas_try_purge/c_arenas_try_purge_rec"]),
      "alloc_aligned": P("alloc_aligned", "_mi_arena_alloc_aligned", OS + ["mi_arena_try_alloc/c_arena_try_alloc_rec", "mi_arena_try_alloc_at_id/c_arena_try_alloc_at_id_rec",
                         "mi_arena_reserve/c_arena_reserve_rec", "_mi_os_alloc_aligned", "_mi_os_alloc_aligned_at_offset", "_mi_os_numa_node"]),
      # one field; the four nested loops carry loop contracts (unbounded in the bit patterns)
      "arena_try_purge": dict(name="arena_try_purge", entry="h_arena_try_purge", harness="harness/arena_try_purge.c", enforce="mi_arena_try_purge", label="P", objbits=10, unwind=14,
                         loops="loops/arena_try_purge.json", need_ids=["loop_invariant_step"], functions=["mi_arena_try_purge"],
                         replace=["_mi_bitmap_try_claim/c_bm_try_claim_seq", "_mi_bitmap_unclaim/c_bm_unclaim_seq", "_mi_bitmap_claim/c_bm_claim_seq", "mi_arena_purge_range/c_purge_range_use",
                                  "mi_arena_purge_delay/c_arena_purge_delay_seq", "_mi_clock_now", "mi_option_get", "mi_option_is_enabled", "_mi_preloading"], timeout=900),
      "purge_range": dict(name="purge_range", entry="h_purge_range", harness="harness/arena_try_purge.c", enforce="mi_arena_purge_range/c_purge_range_use", label="P", objbits=10, unwind=14,
                         loops="loops/arena_purge_range.json", need_ids=["loop_invariant_step"], functions=["mi_arena_purge_range"], replace=["mi_arena_purge/c_arena_purge_seq"], timeout=900),
      "arena_purge_seq": dict(name="arena_purge_seq", entry="h_arena_purge_seq", harness="harness/arena_try_purge.c", enforce="mi_arena_purge/c_arena_purge_seq", label="PC", objbits=10, unwind=5,
                         functions=["mi_arena_purge", "_mi_bitmap_is_claimed_across", "_mi_bitmap_unclaim_across", "mi_bitmap_mask_across"], replace=["mi_option_get", "mi_option_is_enabled"], timeout=900),
      "bm_try_claim_seq": dict(name="bm_try_claim_seq", entry="h_bm_try_claim", harness="harness/arena_try_purge.c", enforce="_mi_bitmap_try_claim/c_bm_try_claim_seq", label="PC", objbits=10, unwind=3, functions=["_mi_bitmap_try_claim"], replace=[], timeout=300),
      "bm_unclaim_seq": dict(name="bm_unclaim_seq", entry="h_bm_unclaim", harness="harness/arena_try_purge.c", enforce="_mi_bitmap_unclaim/c_bm_unclaim_seq", label="P", objbits=10, unwind=3, functions=["_mi_bitmap_unclaim"], replace=[], timeout=300),
      "bm_claim_seq": dict(name="bm_claim_seq", entry="h_bm_claim", harness="harness/arena_try_purge.c", enforce="_mi_bitmap_claim/c_bm_claim_seq", label="P", objbits=10, unwind=3, functions=["_mi_bitmap_claim"], replace=[], timeout=300),
      "try_alloc_at_id": P("try_alloc_at_id", "mi_arena_try_alloc_at_id", OS + ["mi_arena_try_alloc_at/c_try_alloc_at_rec"]),
      "manage_os_memory": dict(name="manage_os_memory", entry="h_manage_plain", harness="harness/arena_manage.c", enforce=None, mode="plain", label="PC", unwind=12, objbits=12,
                         functions=["mi_manage_os_memory_ex", "mi_manage_os_memory_ex2", "mi_arena_add", "_mi_arena_meta_zalloc", "mi_arena_static_zalloc", "_mi_bitmap_claim"], timeout=600,
                         remove_body=["_mi_os_alloc"], remove_body_opt="assume-false",
                         # the caller's region is modelled by a 1-byte object (addresses only): pointer differences inside the real region
                         # would be flagged as leaving that object, so pointer checks are off for this pair (bounds/overflow/shift checks stay on)
                         cbmc_flags=["--no-pointer-check"]),
      "clear_abandoned": P("clear_abandoned", "_mi_arena_segment_clear_abandoned", ["_mi_bitmap_unclaim/c_bitmap_unclaim_ab", "_mi_thread_id"], config="SCALED", entry="h_clear_abandoned", timeout=1800, objbits=10),   # ~340 s unloaded
      "mark_abandoned": P("mark_abandoned", "_mi_arena_segment_mark_abandoned", ["_mi_bitmap_claim/c_bitmap_claim_ab"], config="SCALED", entry="h_mark_abandoned", solver="cadical"),
      "clear_abandoned_at": P("clear_abandoned_at", "mi_arena_segment_clear_abandoned_at", ["_mi_bitmap_unclaim/c_bitmap_unclaim_ab", "_mi_bitmap_claim/c_bitmap_claim_ab", "mi_arena_block_start/c_arena_block_start_use"], config="SCALED", entry="h_clear_abandoned_at"),
      "os_clear_abandoned": P("os_clear_abandoned", "mi_arena_segment_os_clear_abandoned", ["_mi_thread_id"], config="SCALED", entry="h_os_clear_abandoned"),
      "abandoned_visit": P("abandoned_visit", "mi_abandoned_visit_blocks", OS + ["_mi_arena_field_cursor_init/c_cursor_init_rec", "_mi_arena_field_cursor_done/c_cursor_done_rec",
                         "_mi_arena_segment_clear_abandoned_next/c_clear_abandoned_next_rec", "_mi_arena_segment_mark_abandoned/c_mark_abandoned_rec", "_mi_segment_visit_blocks", "_mi_subproc_from_id"],
                         config="SCALED", entry="h_abandoned_visit", label="B", K=2, unwindset={"mi_abandoned_visit_blocks.0": 4}),
      "id_suitable": P("id_suitable", "mi_arena_id_is_suitable", []),
      "memid_suitable": P("memid_suitable", "_mi_arena_memid_is_suitable", []),
    }
