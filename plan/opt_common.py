# the option getters of the real options.c, enforced against the contracts (contracts/stubs.h) that every other harness assumes for them
H = "harness/opt_get.c"
EXT = ["_mi_prim_getenv", "_mi_prim_out_stderr", "_mi_preloading", "_mi_clock_now", "_mi_is_main_thread", "_mi_thread_id"]
def pairs():
    return [
        dict(name="opt_get", entry="h_opt_get", harness=H, enforce="mi_option_get/c_option_get_spec", replace=["mi_option_init/c_option_init_rec"], label="P",
             functions=["mi_option_get"], timeout=300, unwind=14),
        dict(name="opt_is_enabled", entry="h_opt_is_enabled", harness=H, enforce="mi_option_is_enabled", replace=["mi_option_get"], label="P",
             functions=["mi_option_is_enabled"], timeout=300, unwind=14),
        dict(name="opt_get_clamp", entry="h_opt_get_clamp", harness=H, enforce="mi_option_get_clamp", replace=["mi_option_get"], label="P",
             functions=["mi_option_get_clamp"], timeout=300, unwind=14),
    ]
