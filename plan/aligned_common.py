H = "harness/aligned.c"
MEM = ["_mi_memzero", "_mi_memzero_aligned", "_mi_memcpy_aligned"]
QUICK_ALIGN = [16, 64, 4096]
ALL_ALIGN = [1 << k for k in range(4, 29)]       # 16 .. 256 MiB (MI_BLOCK_ALIGNMENT_MAX is 16 MiB: both sides covered)
def pairs():
    out = {}
    for a in ALL_ALIGN:
        t = "quick" if a in QUICK_ALIGN or a == (1 << 25) else "thorough"
        D = ["-DVC_ALIGN=%d" % a]
        out["overalloc_%d" % a] = dict(name="overalloc_%d" % a, harness=H, entry="h_overalloc", enforce="mi_heap_malloc_zero_aligned_at_overalloc", label="P", defs=D, tier=t,
            replace=["_mi_heap_malloc_zero", "_mi_heap_malloc_zero_ex", "_mi_ptr_page", "_mi_padding_shrink", "mi_usable_size"] + MEM,
            functions=["mi_heap_malloc_zero_aligned_at_overalloc"], timeout=300, solver=("cadical" if a > (1 << 24) else "minisat"))
        out["generic_%d" % a] = dict(name="generic_%d" % a, harness=H, entry="h_generic", enforce="mi_heap_malloc_zero_aligned_at_generic", label="P", defs=D, tier=t,
            replace=["_mi_heap_malloc_zero", "mi_heap_malloc_zero_aligned_at_overalloc/c_overalloc_rec", "mi_free", "mi_good_size"],
            functions=["mi_heap_malloc_zero_aligned_at_generic", "mi_malloc_is_naturally_aligned"], timeout=300)
        out["realloc_aligned_%d" % a] = dict(name="realloc_aligned_%d" % a, harness=H, entry="h_realloc_aligned", enforce="mi_heap_realloc_zero_aligned_at", label="P", defs=D, tier=t,
            replace=["_mi_heap_realloc_zero", "mi_heap_malloc_aligned_at/c_malloc_aligned_at_use", "mi_heap_malloc_zero_aligned_at/c_malloc_zero_aligned_at_use", "mi_free", "mi_usable_size"] + MEM,
            functions=["mi_heap_realloc_zero_aligned_at"], timeout=300)
    out["aligned_entry"] = dict(name="aligned_entry", harness=H, entry="h_entry", enforce="mi_heap_malloc_zero_aligned_at", label="P",
            replace=["mi_heap_malloc_zero_aligned_at_generic/c_generic_rec"], functions=["mi_heap_malloc_zero_aligned_at"])
    return out
