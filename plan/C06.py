import alloc_common, aligned_common
A = alloc_common.pairs(); B = aligned_common.pairs()
PAIRS = [A[k] for k in ("count_size_overflow", "calloc", "mallocn", "reallocn", "recalloc")] + [v for k, v in B.items() if k.startswith("generic_") or k == "aligned_entry"]
import posix_common
PAIRS += posix_common.pairs()
import page_common as _pc
PAIRS += _pc.malloc_generic_pairs()      # generic path: retry once after a forced collect, NULL only when the page search failed twice; periodic drain of delayed frees
PAIRS += [_pc.find_page_pair()]      # the page search entry: above MI_MAX_ALLOC_SIZE => NULL + EOVERFLOW, neither allocator reached
