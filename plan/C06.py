import alloc_common
A = alloc_common.pairs()
PAIRS = [A[k] for k in ("count_size_overflow", "calloc", "mallocn", "reallocn", "recalloc")]
