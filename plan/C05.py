import alloc_common, aligned_common
A = alloc_common.pairs(); B = aligned_common.pairs()
PAIRS = [A[k] for k in ("realloc_zero", "reallocn", "recalloc", "reallocf", "fwd_realloc", "fwd_reallocf", "fwd_rezalloc", "expand")] + [v for k, v in B.items() if k.startswith("realloc_aligned_")]
