import alloc_common
A = alloc_common.pairs()
PAIRS = [A[k] for k in ("realloc_zero", "reallocn", "recalloc", "reallocf", "fwd_realloc", "fwd_reallocf", "fwd_rezalloc", "expand")]
