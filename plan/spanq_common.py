# free-span queue surgery of the real segment.c (push, delete, delete of a span that is in no queue) on harness-built nodes
def pairs():
    P = lambda n, e, f: dict(name=n, entry=e, harness="harness/span_queue.c", enforce=f, replace=[], config="SCALED", label="P", unwind=14, functions=[f.split("/")[0]], timeout=300)
    return [P("sq_push", "h_sq_push", "mi_span_queue_push/c_sq_push_spec"), P("sq_delete", "h_sq_delete", "mi_span_queue_delete/c_sq_delete_spec"),
            P("sq_delete_absent", "h_sq_delete_absent", "mi_span_queue_delete/c_sq_delete_absent_spec"),
            dict(P("span_remove", "h_span_remove", "mi_segment_span_remove_from_queue/c_span_remove_spec"), replace=["mi_span_queue_delete/c_sq_delete_rec2"],
                 functions=["mi_segment_span_remove_from_queue", "mi_span_queue_for", "mi_slice_bin"])]
