def pairs():
    R = lambda n, e, fs, **kw: dict(dict(name=n, entry=e, harness="harness/rg_page.c", enforce=None, mode="plain", rg=True, label="B", K=2, functions=fs, timeout=600, unwind=12), **kw)
    F = lambda n, e, fs, **kw: dict(dict(name=n, entry=e, harness="harness/rg_free.c", enforce=None, mode="plain", rg=True, label="B", K=2, functions=fs, timeout=600, unwind=12), **kw)
    return {
      "free_block_delayed_mt": F("free_block_delayed_mt", "h_free_block_delayed_mt", ["mi_free_block_delayed_mt"]),
      "thread_free_collect": R("thread_free_collect", "h_thread_free_collect", ["_mi_page_thread_free_collect"]),
      "delayed_free_partial": R("delayed_free_partial", "h_delayed_free_partial", ["_mi_heap_delayed_free_partial"], mem_gb=30, unwind=6, defs=["-DVC_NO_INIT_C"], unwindset={"_mi_heap_delayed_free_partial.0": 4, "_mi_heap_delayed_free_partial.1": 5, "_mi_heap_delayed_free_partial.2": 4}),   # integer->pointer links are case-split over all objects: keep the big statics of init.c out
      "queue_append": R("queue_append", "h_queue_append", ["_mi_page_queue_append", "_mi_page_use_delayed_free", "_mi_page_try_use_delayed_free"], unwind=12),
      "try_use_delayed_free": R("try_use_delayed_free", "h_try_use_delayed_free", ["_mi_page_try_use_delayed_free"]),
    }
