H = "harness/heap_ops.c"
P = lambda n, e, f, rep, **kw: dict(dict(name=n, entry=e, harness=H, enforce=f, replace=rep, label="P", functions=[f], timeout=300, unwind=20), **kw)
PAIRS = [
    P("absorb", "h_absorb", "mi_heap_absorb", ["_mi_page_queue_append", "_mi_heap_delayed_free_partial", "_mi_heap_delayed_free_all", "mi_heap_reset_pages/c_heap_reset_pages_rec"],
      loops="loops/c10_absorb.json", need_ids=["loop_invariant_step"]),
    P("delete", "h_delete", "mi_heap_delete", ["mi_heap_absorb/c_heap_absorb_rec", "_mi_heap_collect_abandon", "mi_heap_free/c_heap_free_rec"]),
    P("destroy", "h_destroy", "mi_heap_destroy", ["_mi_heap_destroy_pages", "mi_heap_free/c_heap_free_rec", "mi_heap_delete/c_heap_delete_rec"]),
    P("page_destroy", "h_page_destroy", "_mi_heap_page_destroy", ["_mi_page_use_delayed_free", "_mi_segment_page_free"]),
    P("heap_free", "h_heap_free", "mi_heap_free", ["_mi_heap_set_default_direct", "mi_free", "mi_prim_get_default_heap"], label="B", K=2),
]
import rg_common
G = rg_common.pairs()
PAIRS += [G["queue_append"], G["free_block_delayed_mt"]]
import page_common as _pc
PAIRS += _pc.queue_pairs()      # queue surgery: a page moved between queues is in exactly one queue afterwards, neighbours stay linked
import visit_common as _vc
PAIRS += _vc.pairs()      # mi_heap_visit_pages reaches every page of every queue, including the full queue
