HA = "harness/page_alloc.c"
HO = "harness/page_ops.c"
import common
def pairs():
    P = lambda n, e, f, rep, **kw: dict(dict(name=n, entry=e, harness=HA, enforce=f, replace=rep, label="P", functions=[f], timeout=300, unwind=14), **kw)
    return {
      "page_malloc": P("page_malloc", "h_page_malloc", "_mi_page_malloc_zero", ["_mi_malloc_generic", "_mi_memzero_aligned"], min_obligations=6),
      "free_block_local": P("free_block_local", "h_free_block_local", "mi_free_block_local", ["_mi_page_retire", "_mi_page_unfull"]),
      "unfull": dict(name="unfull", entry="h_unfull", harness=HO, enforce="_mi_page_unfull", replace=["mi_page_queue_enqueue_from_full/c_enqueue_from_rec"], label="P", functions=["_mi_page_unfull", "mi_heap_page_queue_of", "mi_page_bin"], timeout=300, unwind=14),
      "to_full": dict(name="to_full", entry="h_to_full", harness=HO, enforce="mi_page_to_full", replace=["mi_page_queue_enqueue_from/c_enqueue_from_rec", "_mi_page_free_collect/c_page_free_collect_rec"], label="P", functions=["mi_page_to_full"], timeout=300, unwind=14),
      "set_in_full": P("set_in_full", "h_set_in_full", "mi_page_set_in_full", []),
      "set_has_aligned": P("set_has_aligned", "h_set_has_aligned", "mi_page_set_has_aligned", []),
        }
def malloc_generic_pairs():
    # the page search is an assumed body (stubs/bodies/find_page.c), see vc.py stub_bodies
    return [dict(name="malloc_generic", entry="h_malloc_generic", harness="harness/malloc_generic.c", enforce="_mi_malloc_generic", label="P", functions=["_mi_malloc_generic"],
                 timeout=900, unwind=24, objbits=12, mem_gb=12, stub_bodies={"src": "stubs/bodies/find_page.c", "remove": ["mi_find_page"]},
                 replace=["mi_heap_collect", "_mi_heap_delayed_free_partial/c_delayed_free_partial_rec", "_mi_deferred_free", "_mi_page_malloc_zero", "_mi_page_malloc",
                          "mi_page_to_full/c_page_to_full_rec", "_mi_memzero_aligned", "mi_option_get_clamp", "mi_option_get"])]
def queue_pairs():
    Q = lambda n, f: dict(name=n, entry="h_" + n, harness="harness/page_queue.c", enforce=f, label="P", functions=[f], timeout=300, unwind=20, replace=["mi_heap_queue_first_update/c_first_update_rec"])
    return [Q("queue_remove", "mi_page_queue_remove"), Q("queue_push", "mi_page_queue_push"), Q("queue_enqueue_from", "mi_page_queue_enqueue_from_ex")]
def page_free_pairs():
    return [dict(name="page_free", entry="h_page_free", harness="harness/page_free.c", enforce="_mi_page_free", label="P", functions=["_mi_page_free"], timeout=300, unwind=20, objbits=10,
                 replace=["mi_page_queue_remove/c_queue_remove_rec", "_mi_segment_page_free"]),
            dict(name="page_retire", entry="h_page_retire", harness="harness/page_free.c", enforce="_mi_page_retire", label="P", functions=["_mi_page_retire", "mi_page_queue_of"], timeout=300, unwind=20, objbits=10, solver="cadical",   # (pq - heap->pages) divides by 24: minisat does not finish, cadical 5 s
                 replace=["_mi_page_free/c_page_free_rec"])]
def collect_retired_pair():
    return dict(name="collect_retired", entry="h_collect_retired", harness="harness/page_free.c", enforce="_mi_heap_collect_retired", label="P", functions=["_mi_heap_collect_retired"], timeout=600, unwind=80, objbits=10,
                loops="loops/collect_retired.json", need_ids=["loop_invariant_step"], replace=["_mi_page_free/c_page_free_rec"], unwindset={"h_collect_retired.0": 80})
def first_update_pairs():
    # one run per queue bin (literal).  Small bins = the bins in the range of the real _mi_bin for sizes up to MI_SMALL_SIZE_MAX (computed natively on every run:
    # with MI_ALIGN2W the odd word-size bins 3, 5, 7 are never used -- no page ever has such a block size, so their queues never change); plus the first
    # non-small bin, the huge and the full queue, which must leave the table alone.
    small = common.used_small_bins()
    out = []
    for qb in small + [max(small) + 1, 73, 74]:
        out.append(dict(name="first_update_bin%d" % qb, entry="h_first_update", harness="harness/first_update.c", enforce="mi_heap_queue_first_update", label="PC", functions=["mi_heap_queue_first_update"],
                        timeout=600, unwind=132, objbits=10, replace=[], defs=["-DVC_QBIN=%d" % qb], tier=("quick" if qb in (small[0], small[1], 9, 20, max(small), max(small) + 1) else "thorough")))
    return out
def page_abandon_pair():
    return dict(name="page_abandon", entry="h_page_abandon", harness="harness/page_free.c", enforce="_mi_page_abandon", label="P", functions=["_mi_page_abandon"], timeout=300, unwind=20, objbits=10,
                replace=["mi_page_queue_remove/c_queue_remove_rec", "_mi_segment_page_abandon"])
def find_page_pair():
    return dict(name="find_page", entry="h_find_page", harness="harness/find_page.c", enforce="mi_find_page", label="P", functions=["mi_find_page"], timeout=300, unwind=14,
                replace=["mi_large_huge_page_alloc/c_large_huge_rec", "mi_find_free_page/c_find_free_rec"])
def extend_pairs():
    out = []
    cl = common.used_classes()
    for b in cl:
        out.append(dict(name="extend_free_%d" % b, entry="h_extend_free", harness=HO, enforce="mi_page_extend_free", replace=["mi_page_free_list_extend/c_free_list_extend_rec"], label="P",
                        defs=["-DVC_BS=%d" % b], functions=["mi_page_extend_free"], timeout=300, unwind=14, tier=("quick" if b in (8, 48, 1024, 4096, 65536) else "thorough")))
    return out
