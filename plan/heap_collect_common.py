def pair():
    return dict(name="collect_ex", entry="h_collect_ex", harness="harness/heap_collect.c", enforce="mi_heap_collect_ex", label="P", functions=["mi_heap_collect_ex"], timeout=300, unwind=24,
                replace=["_mi_deferred_free/c_cx_deferred", "_mi_is_main_thread/c_cx_is_main", "_mi_thread_id/c_cx_thread_id", "_mi_abandoned_reclaim_all/c_cx_reclaim_all", "mi_heap_visit_pages/c_cx_visit",
                         "_mi_heap_delayed_free_all/c_cx_dfall", "_mi_heap_collect_retired/c_cx_retired", "_mi_abandoned_collect/c_cx_abcollect", "_mi_thread_data_collect/c_cx_tdcollect",
                         "_mi_arenas_collect/c_cx_arenas", "mi_stats_merge/c_cx_merge"])
def page_collect_pair():
    return dict(name="page_collect", entry="h_page_collect", harness="harness/heap_collect.c", enforce="mi_heap_page_collect", label="P", functions=["mi_heap_page_collect"], timeout=300, unwind=24,
                replace=["_mi_page_free_collect/c_pc_free_collect", "_mi_segment_collect/c_pc_segment_collect", "_mi_page_free/c_pc_page_free", "_mi_page_abandon/c_pc_page_abandon"])
