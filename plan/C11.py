H = "harness/c11_os.c"
PRIM = ["_mi_prim_free", "_mi_prim_alloc", "_mi_prim_commit", "_mi_prim_decommit", "_mi_prim_reset", "_mi_prim_protect"]
PAIRS = [
    dict(name="os_free_ex", harness=H, enforce="_mi_os_free_ex", replace=["_mi_prim_free", "_mi_os_good_alloc_size"], label="P",
         functions=["_mi_os_free_ex", "mi_os_prim_free"], min_obligations=8,
         replay={"src": "replay_src/witness_c11.c"}),
    # the rounding function whose result the three pairs around it use as the logical g_good: enforced against its specification on the real os.c
    dict(name="good_alloc_size", entry="h_good_alloc_size", harness=H, enforce="_mi_os_good_alloc_size/c_good_alloc_size_spec", replace=[], label="P",
         functions=["_mi_os_good_alloc_size", "_mi_os_page_size", "_mi_align_up"], timeout=300),
    dict(name="os_alloc", harness=H, enforce="_mi_os_alloc", replace=["_mi_prim_alloc", "_mi_os_good_alloc_size", "mi_option_is_enabled", "mi_option_get"], label="P",
         functions=["_mi_os_alloc", "mi_os_prim_alloc", "mi_os_prim_alloc_at"]),
    dict(name="os_alloc_aligned", harness=H, enforce="_mi_os_alloc_aligned", replace=["_mi_prim_alloc", "_mi_prim_free", "_mi_prim_commit", "_mi_os_good_alloc_size", "mi_option_is_enabled", "mi_option_get"], label="P",
         functions=["_mi_os_alloc_aligned", "mi_os_prim_alloc_aligned", "mi_os_prim_alloc", "mi_os_prim_free"], timeout=300),
]
import arena_common, os_common
A = arena_common.pairs(); O = os_common.pairs()
PAIRS += [A["arena_free"], A["arena_purge"], O["os_purge_ex"]]
import page_common as _pc
PAIRS += _pc.page_free_pairs()      # an empty page is freed at once or kept for a bounded number of cycles inside the scanned bin range; freeing unlinks, detaches and hands it to the segment layer once
import seg_common as _sc
PAIRS += [_sc.pairs()['segment_os_free']]      # a segment goes back to the arena layer exactly once with exactly its (base, size, memid)
import heap_collect_common as _hc
PAIRS += [_hc.page_collect_pair()]      # per-page step of a collection: empty => freed, live blocks => kept (abandoned on thread exit), never freed
import seg_common as _sc2
PAIRS += [_sc2.pairs()[k] for k in ('segment_page_free',)]      # last page freed => segment freed; only abandoned pages left => segment abandoned
PAIRS += [_sc2.pairs()['page_clear']]      # a freed page is wiped (no stale list pointers), its span returned once, the segment counts one page less
PAIRS += [_pc.collect_retired_pair()]      # a retired (empty, kept) page is found again and freed when its count-down ends or the collect is forced
PAIRS += [_sc2.pairs()['segment_free']]      # a segment with no page in use is handed to mi_segment_os_free exactly once (unless dont_free)
# the per-thread segment accounting that mi_segment_os_alloc / mi_segment_os_free drive (recorder there): exact on the real function
PAIRS += [dict(name="track_size", entry="h_track_size", harness="harness/seg_alloc.c", enforce="mi_segments_track_size/c_track_size_spec", config="SCALED", label="P", unwind=14,
               replace=[], functions=["mi_segments_track_size"], timeout=300)]
