"""shared helpers for plans: facts read mechanically from /repo on every run"""
import os, re, subprocess, hashlib
REPO = os.environ.get("VC_REPO", "/repo")
VERIF = os.path.dirname(os.path.dirname(os.path.abspath(__file__)))

def table_classes():
    """block sizes of the real size-class table (src/init.c, MI_PAGE_QUEUES_EMPTY)"""
    src = open(os.path.join(REPO, "src/init.c")).read()
    m = re.search(r"#define MI_PAGE_QUEUES_EMPTY(.*?)\n\n", src, re.S)
    ws = [int(x) for x in re.findall(r"QNULL\(\s*(\d+)\)", m.group(1))]
    return [w * 8 for w in ws if w * 8 <= 65536 * 2]

def used_classes():
    """size classes in the range of the real _mi_bin (compiled natively from /repo/src/static.c):
    on 64-bit MI_ALIGN2W rounds small sizes to double words, so 24/40/56 are never used."""
    d = os.path.join(VERIF, ".build", "common")
    os.makedirs(d, exist_ok=True)
    src = os.path.join(d, "classes.c")
    open(src, "w").write('#include "src/static.c"\n#include <stdio.h>\n'
                         'int main(void){ size_t last=0; for (size_t s=1; s<=MI_MEDIUM_OBJ_SIZE_MAX; s++){ size_t b=_mi_bin_size(_mi_bin(s)); if (b!=last){ printf("%zu\\n", b); last=b; } } return 0; }\n')
    exe = os.path.join(d, "classes")
    r = subprocess.run(["gcc", "-O1", "-w", "-DMI_BUILD_RELEASE", "-DNDEBUG", "-I" + REPO, "-I" + os.path.join(REPO, "include"),
                        src, "-o", exe, "-lpthread"], capture_output=True, text=True)
    if r.returncode != 0:
        raise RuntimeError("cannot compile class enumerator: " + r.stderr[-400:])
    out = subprocess.run([exe], capture_output=True, text=True, timeout=60).stdout.split()
    return [int(x) for x in out]


def used_small_bins():
    """bin numbers of the size classes in the range of the real _mi_bin whose block size is at most MI_SMALL_SIZE_MAX (these have entries in the direct table)"""
    d = os.path.join(VERIF, ".build", "common")
    os.makedirs(d, exist_ok=True)
    src = os.path.join(d, "bins.c")
    open(src, "w").write('#include "src/static.c"\n#include <stdio.h>\n'
                         'int main(void){ size_t last=0; for (size_t s=1; s<=MI_SMALL_SIZE_MAX; s++){ size_t b=_mi_bin(s); if (b!=last){ printf("%zu\\n", b); last=b; } } return 0; }\n')
    exe = os.path.join(d, "bins")
    r = subprocess.run(["gcc", "-O1", "-w", "-DMI_BUILD_RELEASE", "-DNDEBUG", "-I" + REPO, "-I" + os.path.join(REPO, "include"), src, "-o", exe, "-lpthread"], capture_output=True, text=True)
    if r.returncode != 0:
        raise RuntimeError("cannot compile bin enumerator: " + r.stderr[-400:])
    return [int(x) for x in subprocess.run([exe], capture_output=True, text=True, timeout=60).stdout.split()]
