H = "harness/c11_os.c"
PRIM = ["_mi_prim_free", "_mi_prim_alloc", "_mi_prim_commit", "_mi_prim_decommit", "_mi_prim_reset", "_mi_prim_protect", "mi_option_get", "mi_option_is_enabled", "_mi_preloading"]
# the range is modelled by a 1-byte object (addresses only): pointer differences inside the real range would be flagged as leaving it;
# and CBMC reports the (legal, handled by `diff <= 0`) negative pointer difference end - start of an empty conservative range as a signed
# overflow.  Both built-in checks are off for these pairs only; bounds, shift and division checks stay on.
NOPTR = ["--no-pointer-check", "--no-signed-overflow-check"]
def pairs():
    P = lambda n, f, **kw: dict(dict(name=n, harness=H, enforce=f, replace=PRIM, label="P", functions=[f], timeout=300, cbmc_flags=NOPTR), **kw)
    return {"page_align": P("page_align", "mi_os_page_align_areax"), "os_commit_ex": P("os_commit_ex", "_mi_os_commit_ex"), "os_purge_ex": P("os_purge_ex", "_mi_os_purge_ex")}
