import arena_common
A = arena_common.pairs()
PAIRS = [A[k] for k in ("try_alloc_at", "arena_purge", "arena_free")]
