import arena_common
A = arena_common.pairs()
PAIRS = [A[k] for k in ("try_alloc_at", "arena_purge", "arena_free")]
import seg_common
S = seg_common.pairs()
PAIRS += [S[k] for k in ("seg_commit_mask", "seg_purge", "seg_commit", "seg_ensure_committed")]
import os_common
O = os_common.pairs()
PAIRS += [O[k] for k in ("page_align", "os_commit_ex", "os_purge_ex")]
PAIRS += [A[k] for k in ("arena_try_purge", "purge_range", "arena_purge_seq")]      # a purge pass never hands an in-use block to the OS purge
import opt_common as _oc
PAIRS += _oc.pairs()      # the option getters (assumed over the logical array g_opt by all pairs above) enforced on the real options.c: get = table value after lazy init, is_enabled = (get != 0), get_clamp = clamp(get)
