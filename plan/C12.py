PAIRS = []
# (block size, smallest capacity, largest capacity, tier, extra): small pages exhaustively (any free set, any stop point);
# pages whose first 64-block group is completely in use with free blocks in the tail (the bitmap fast path)
# measured on the final plan (thorough run): (48, 67, tail-free) and (16, 131, tail-free) exhaust 12 GB, (16, 65..67, arbitrary free set) gives no answer in 3600 s:
# these three are NOT run and NOT decided
for bs, lo, hi, t, x in ((16, 1, 8, "quick", []), (16, 67, 67, "quick", ["-DVC_TAILFREE"]), (48, 1, 8, "thorough", []), (1024, 1, 8, "thorough", [])):
    PAIRS.append(dict(name="visit_blocks_%d_%d_%d%s" % (bs, lo, hi, "_tail" if x else ""), entry="h_visit_blocks", harness="harness/c12_walk.c", enforce=None, mode="plain", label="B", K=hi,
                      defs=["-DVC_BS=%d" % bs, "-DVC_CAP=%d" % hi, "-DVC_CAPMIN=%d" % lo] + x, unwind=hi + 3, timeout=1200, timeout_thorough=3600, tier=t, mem_gb=12,
                      functions=["_mi_heap_area_visit_blocks", "_mi_heap_area_init", "mi_get_fast_divisor", "mi_fast_divide"]))
import arena_common
A = arena_common.pairs()
PAIRS.append(A["abandoned_visit"])
LEVEL = "other"
EXPLANATION = ("The real _mi_heap_area_visit_blocks run by CBMC on a contiguous page area with symbolic capacity (1..8 exhaustively; 67 with the first 64-block group in use), symbolic free set "
               "(up to 3 blocks at arbitrary positions), symbolic stop point of the visitor; witness block: live => reported exactly once, free => never; count == used; stop is propagated. "
               "mi_abandoned_visit_blocks as a contract with a cursor that yields at most 2 segments. All pairs are BOUNDED stand-ins (page capacity, free-list length, number of segments); "
               "fast division for every size class and block index is proved separately (C16).")
import visit_common as _vc
PAIRS += _vc.pairs()      # mi_heap_visit_pages reaches every page of every queue, including the full queue
