import arena_common, seg_common, os_common
A = arena_common.pairs(); S = seg_common.pairs(); O = os_common.pairs()
PAIRS = [A[k] for k in ("try_alloc_at", "arena_free")] + [S[k] for k in ("seg_commit", "seg_ensure_committed", "segment_os_alloc")] + [O["os_commit_ex"]]
import page_common as _pc
PAIRS += _pc.malloc_generic_pairs()      # generic path: retry once after a forced collect, NULL only when the page search failed twice; periodic drain of delayed frees
