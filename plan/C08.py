import rg_common, page_common
A = rg_common.pairs(); P = page_common.pairs()
PAIRS = [A[k] for k in ("thread_free_collect", "try_use_delayed_free", "free_block_delayed_mt", "delayed_free_partial")] + [P[k] for k in ("free_block_local", "unfull", "to_full")]
