import rg_common, page_common
A = rg_common.pairs(); P = page_common.pairs()
PAIRS = [A[k] for k in ("thread_free_collect", "try_use_delayed_free", "free_block_delayed_mt", "delayed_free_partial")] + [P[k] for k in ("free_block_local", "unfull", "to_full")]
import page_common as _pc
PAIRS += _pc.malloc_generic_pairs()      # generic path: retry once after a forced collect, NULL only when the page search failed twice; periodic drain of delayed frees
import heap_collect_common as _hc
PAIRS += [_hc.pair()]      # mi_heap_collect_ex: steps, force flags and order of a collection
PAIRS += [_hc.page_collect_pair()]      # per-page step of a collection: empty => freed, live blocks => kept (abandoned on thread exit), never freed
