"""extract the format literals of every internal printf-style call in /repo/src (mechanically, on every run)"""
import re, os, glob
REPO = os.environ.get("VC_REPO", "/repo")
FUNS = {"_mi_snprintf": 2, "_mi_fprintf": 2, "_mi_message": 0, "_mi_warning_message": 0, "_mi_error_message": 1,
        "_mi_verbose_message": 0, "_mi_trace_message": 0}
def strip_comments(s):
    s = re.sub(r"/\*.*?\*/", " ", s, flags=re.S)
    s = re.sub(r"//[^\n]*", " ", s)
    return s
def split_args(s):
    args, depth, cur, instr, i = [], 0, "", False, 0
    while i < len(s):
        c = s[i]
        if instr:
            cur += c
            if c == "\\": cur += s[i+1]; i += 1
            elif c == '"': instr = False
        elif c == '"': instr = True; cur += c
        elif c in "([{": depth += 1; cur += c
        elif c in ")]}":
            if depth == 0: args.append(cur); return args, i
            depth -= 1; cur += c
        elif c == "," and depth == 0: args.append(cur); cur = ""
        else: cur += c
        i += 1
    return args, i
def literals():
    out = []
    notlit = []
    for f in sorted(glob.glob(os.path.join(REPO, "src", "*.c"))):
        src = strip_comments(open(f).read())
        for fn, idx in FUNS.items():
            for m in re.finditer(r"(?<![A-Za-z0-9_])" + re.escape(fn) + r"\s*\(", src):
                args, _ = split_args(src[m.end():])
                if len(args) <= idx: continue
                a = args[idx].strip()
                before = src[max(0, m.start()-80):m.start()]
                if re.search(r"(void|int|static)\s+$", before): continue      # the definition / a prototype
                parts = re.findall(r'"((?:[^"\\]|\\.)*)"', a)
                rest = re.sub(r'"((?:[^"\\]|\\.)*)"', "", a).strip()
                if not parts or rest:
                    notlit.append((os.path.basename(f), fn, a[:60]))
                    continue
                out.append((os.path.basename(f), fn, "".join(parts)))
    return out, notlit
if __name__ == "__main__":
    o, n = literals()
    fm = sorted(set(x[2] for x in o))
    print(len(o), "calls,", len(fm), "distinct literals; non-literal:", n)
    for x in fm: print(repr(x))
