import arena_common
A = arena_common.pairs()
PAIRS = [A[k] for k in ("id_suitable", "memid_suitable", "alloc_aligned", "try_alloc_at_id", "manage_os_memory")]
