import arena_common
A = arena_common.pairs()
PAIRS = [A[k] for k in ("id_suitable", "memid_suitable", "alloc_aligned", "try_alloc_at_id", "manage_os_memory")]
import seg_common
S = seg_common.pairs()
PAIRS += [S[k] for k in ("reclaim_all", "abandoned_collect", "try_reclaim", "try_reclaim_k5", "attempt_reclaim")]
import heap_collect_common as _hc
PAIRS += [_hc.pair()]      # mi_heap_collect_ex: steps, force flags and order of a collection
# the heap-level suitability test that segment.c calls: enforced on the real heap.c against the arena-level contract (itself enforced on arena.c above)
PAIRS += [dict(name="heap_memid_suitable", entry="h_heap_suitable", harness="harness/heap_ops.c", enforce="_mi_heap_memid_is_suitable", replace=["_mi_arena_memid_is_suitable"],
               label="P", functions=["_mi_heap_memid_is_suitable"], timeout=300, unwind=20)]
