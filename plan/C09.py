import arena_common, seg_common
A = arena_common.pairs(); S = seg_common.pairs()
PAIRS = [A[k] for k in ("clear_abandoned", "mark_abandoned", "clear_abandoned_at", "os_clear_abandoned")] + [S[k] for k in ("attempt_reclaim", "reclaim_all", "abandoned_collect", "try_reclaim")]
import heap_collect_common as _hc
PAIRS += [_hc.pair()]      # mi_heap_collect_ex: steps, force flags and order of a collection
PAIRS += [_hc.page_collect_pair()]      # per-page step of a collection: empty => freed, live blocks => kept (abandoned on thread exit), never freed
import page_common as _pc
PAIRS += [_pc.page_abandon_pair()]      # a page with live blocks is unlinked, detached and handed to the segment layer once; nothing is freed
import seg_common as _sc2
PAIRS += [_sc2.pairs()[k] for k in ('segment_page_free', 'segment_page_abandon',)]      # last page freed => segment freed; only abandoned pages left => segment abandoned
PAIRS += [_sc2.pairs()['page_clear']]      # a freed page is wiped (no stale list pointers), its span returned once, the segment counts one page less
import visit_common as _vc
PAIRS += _vc.pairs()      # mi_heap_visit_pages reaches every page of every queue, including the full queue
