H = "harness/c17.c"
ERR = []   # _mi_error_message is a recorder body in the harness (dfcc cannot replace a variadic callee)
P = lambda n, e, f, rep, **kw: dict(dict(name=n, entry=e, harness=H, enforce=f, replace=rep, config="SEC4", label="P", functions=[f] if f else [], timeout=600, unwind=14), **kw)
PAIRS = [
    P("encode_decode", "h_encode_decode", None, [], mode="plain", functions=["mi_ptr_encode", "mi_ptr_decode", "mi_rotl", "mi_rotr"]),
    P("block_next", "h_block_next", "mi_block_next", ERR + ["mi_is_in_same_page/c_is_in_same_page_use"]),
    P("check_double_free", "h_check_double_free", "mi_check_is_double_free", ERR + ["mi_is_in_same_page/c_is_in_same_page_use", "mi_list_contains/c_list_contains_use"]),
    P("free_block_local_sec", "h_free_block_local_sec", "mi_free_block_local", ["mi_check_is_double_free/c_check_is_double_free_use", "mi_check_padding/c_check_padding_use", "_mi_page_retire", "_mi_page_unfull"]),
    P("padding", "h_padding", None, [], mode="plain", label="PC", unwind=18, remove_body=["_mi_malloc_generic"],
      functions=["_mi_page_malloc_zero", "mi_verify_padding", "mi_page_decode_padding", "mi_ptr_encode_canary"]),
]

import common
for b in common.used_classes():
    PAIRS.append(dict(name="same_page_%d" % b, entry="h_same_page", harness="harness/c17_seg.c", enforce="mi_is_in_same_page", replace=[], config="SEC4SCALED", label="P", defs=["-DVC_BS=%d" % b],
                      functions=["mi_is_in_same_page", "_mi_segment_page_start", "_mi_segment_page_of"], timeout=600, unwind=14, cbmc_flags=["--no-pointer-check"],
                      tier=("quick" if b in (16, 48, 1024, 65536) else "thorough")))
