H = "harness/c16_arith.c"
def P(name, enforce, **kw):
    d = dict(name=name, harness=H, enforce=enforce, label="P", config="REL", functions=[enforce.split("/")[0]] if enforce else [])
    d.update(kw)
    return d
PAIRS = [
    P("bin", "_mi_bin", min_obligations=6),
    P("bin_size", "_mi_bin_size"),
    P("good_size", "mi_good_size", replace=["_mi_os_page_size"]),
    P("good_size_lemmas", None, mode="plain", functions=["mi_good_size", "_mi_bin", "_mi_bin_size"]),
    P("align_up", "_mi_align_up"),
    P("align_down", "_mi_align_down"),
    P("wsize", "_mi_wsize_from_size"),
    P("clamp", "_mi_clamp"),
    P("pow2", "_mi_is_power_of_two"),
]

# ---- address arithmetic ----
HP = "harness/c16_ptr.c"
HS = "harness/c16_seg.c"
import common
ALLBS = common.used_classes()       # the range of the real _mi_bin (45 classes), recomputed on every run
NONPOW2 = [b for b in ALLBS if b & (b - 1)]
QUICKBS = [b for b in (8, 48, 80, 112, 1280, 10240, 57344, 65536) if b in ALLBS]
PAIRS += [
    dict(name="unalign_shift", harness=HP, entry="h_unalign", enforce="_mi_page_ptr_unalign", label="P", config="REL",
         defs=["-DVC_TU_FREE", "-DVC_SHIFT_PATH"], functions=["_mi_page_ptr_unalign"], timeout=300),
    dict(name="slice_bin8", harness=HP, enforce="mi_slice_bin8", label="P", config="REL", defs=["-DVC_TU_SEGMENT"],
         functions=["mi_slice_bin8"]),
    dict(name="slice_bin_lemmas", harness=HP, enforce=None, mode="plain", label="P", config="REL", defs=["-DVC_TU_SEGMENT"],
         functions=["mi_slice_bin8"]),
    dict(name="fast_divisor", harness=HP, enforce="mi_get_fast_divisor", label="P", config="REL", defs=["-DVC_TU_HEAP"],
         functions=["mi_get_fast_divisor"], timeout=300),
    dict(name="ptr_segment", harness=HS, enforce="_mi_ptr_segment", label="P", config="SCALED", functions=["_mi_ptr_segment"]),
    dict(name="page_of", harness=HS, enforce="_mi_segment_page_of", label="P", config="SCALED", functions=["_mi_segment_page_of", "mi_slice_first"], timeout=300,
         # only the segment header is modelled as an object (a 4 MiB object exhausts the SAT solver); `p - segment` for p
         # in the page area is then flagged as leaving the object, which the real MI_SEGMENT_SIZE mapping does not; a failed
         # built-in check blocks all later obligations (UNKNOWN), so pointer checks are off for this pair only -- array
         # bounds checks (the slices[idx] access, which is what matters) stay on
         cbmc_flags=["--no-pointer-check"]),
]
for b in ALLBS:
    q = "quick" if b in QUICKBS else "thorough"
    if b in NONPOW2:
        PAIRS.append(dict(name="unalign_mod_%d" % b, harness=HP, entry="h_unalign", enforce="_mi_page_ptr_unalign", label="P",
                          config="REL", defs=["-DVC_TU_FREE", "-DVC_BS=%d" % b], functions=["_mi_page_ptr_unalign"], tier=q, timeout=300))
    PAIRS.append(dict(name="fast_divide_%d" % b, harness=HP, entry="h_fast_divide", enforce=None, mode="plain", label="P",
                      config="REL", defs=["-DVC_TU_HEAP", "-DVC_BS=%d" % b], functions=["mi_fast_divide", "mi_get_fast_divisor"], tier=q, timeout=300))
    PAIRS.append(dict(name="page_start_%d" % b, harness=HS, entry="h_page_start", enforce="_mi_segment_page_start_from_slice", label="P",
                      config="SCALED", defs=["-DVC_BS=%d" % b], functions=["_mi_segment_page_start_from_slice"], tier=q, timeout=300))
