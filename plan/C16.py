H = "harness/c16_arith.c"
def P(name, enforce, **kw):
    d = dict(name=name, harness=H, enforce=enforce, label="P", config="REL", functions=[enforce.split("/")[0]] if enforce else [])
    d.update(kw)
    return d
PAIRS = [
    P("bin", "_mi_bin", min_obligations=6),
    P("bin_size", "_mi_bin_size"),
    P("good_size", "mi_good_size", replace=["_mi_os_page_size"]),
    P("good_size_lemmas", None, mode="plain", functions=["mi_good_size", "_mi_bin", "_mi_bin_size"]),
    P("align_up", "_mi_align_up"),
    P("align_down", "_mi_align_down"),
    P("wsize", "_mi_wsize_from_size"),
    P("clamp", "_mi_clamp"),
    P("pow2", "_mi_is_power_of_two"),
]
