import rg_common
A = rg_common.pairs()
PAIRS = [A[k] for k in ("thread_free_collect", "try_use_delayed_free", "free_block_delayed_mt", "queue_append")]
LEVEL = "other"
EXPLANATION = ("Rely/guarantee obligations (assertions in hooks of a shadow <stdatomic.h> around the real functions) checked by CBMC with every word, "
               "flag and interference choice symbolic, but BOUNDED: at most K=2 interference events and one spurious CAS failure per call, remote lists of at most 3 blocks. "
               "All pairs are bounded stand-ins (label B); nothing here is counted as an unbounded proof. Sequential consistency assumed.")
