import rg_common
A = rg_common.pairs()
PAIRS = [A[k] for k in ("thread_free_collect", "try_use_delayed_free", "free_block_delayed_mt", "queue_append")]
