def pairs():
    # literal queue bin per run: a small class, the huge queue (73) and the FULL queue (74)
    return [dict(name="visit_pages_bin%d" % b, entry="h_visit_pages", harness="harness/visit_pages.c", enforce=None, mode="plain", label="B", K=2, unwind=78, defs=["-DVC_VBIN=%d" % b],
                 functions=["mi_heap_visit_pages"], timeout=300, cbmc_flags=["--max-field-sensitivity-array-size", "128"],   # 75 queues: keep the array field-sensitive so that empty queues are seen as constants
                 tier=("quick" if b in (1, 73, 74) else "thorough")) for b in (1, 8, 33, 60, 73, 74)]
