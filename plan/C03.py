import aligned_common
A = aligned_common.pairs()
PAIRS = [v for k, v in A.items()]
# interior (aligned) pointers are mapped back to their page through the slice back-offsets that the span layer writes
import seg_common, page_common
S = seg_common.pairs(); PG = page_common.pairs()
PAIRS += seg_common.span_allocate_pairs() + [S["span_page_of"], S["span_free"], S["slice_split"], PG["set_has_aligned"]]
PAIRS += page_common.first_update_pairs()      # the direct small-page table: every word size of a bin points at that bin's queue head
