import aligned_common
A = aligned_common.pairs()
PAIRS = [v for k, v in A.items()]
