OPT = ["mi_option_get", "mi_option_is_enabled", "mi_option_get_clamp"]
PAIRS = [
    dict(name="arenas_try_purge", harness="harness/c18_arena.c", enforce="mi_arenas_try_purge", rg=True,
         replace=["mi_arena_try_purge", "_mi_clock_now", "_mi_preloading"] + OPT, label="B", K=6, defs=["-DVC_K=6"], objbits=12, functions=["mi_arenas_try_purge", "mi_arena_purge_delay"], timeout=300),
]
