OPT = ["mi_option_get", "mi_option_is_enabled", "mi_option_get_clamp"]
PAIRS = [
    dict(name="arenas_try_purge", harness="harness/c18_arena.c", enforce="mi_arenas_try_purge", rg=True,
         replace=["mi_arena_try_purge", "mi_arena_purge_delay/c_arena_purge_delay_use", "_mi_clock_now", "_mi_preloading"] + OPT, label="B", K=6, defs=["-DVC_K=6"], objbits=12, functions=["mi_arenas_try_purge", "mi_arena_purge_delay"], timeout=300),
]
PAIRS += [
    dict(name="arena_purge_delay", harness="harness/c18_arena.c", enforce="mi_arena_purge_delay", rg=True, replace=OPT, label="P", objbits=12,
         functions=["mi_arena_purge_delay"], solver="cadical"),   # minisat: >120 s on the overflow check of the product; cadical 5 s
]
HS = "harness/seg_purge.c"
STUBS = ["_mi_os_purge", "_mi_os_commit", "_mi_clock_now", "_mi_preloading"] + OPT
# Only the segment header is an object (a 4 MiB object exhausts the solver); pointers into the page area are compared
# with `p >= segment + segsize` in the real code, which CBMC's pointer check flags as leaving the object although the real
# mapping is MI_SEGMENT_SIZE bytes.  A failed built-in check blocks every later obligation, so pointer checks are off for the
# segment-range pairs; array bounds, overflow, shift and division checks stay on.
NOPTR = ["--no-pointer-check"]
PAIRS += [
    dict(name="seg_schedule_purge", harness=HS, entry="h_schedule_purge", enforce="mi_segment_schedule_purge", config="SCALED", label="PC",
         replace=["mi_segment_purge/c_seg_purge_rec", "mi_segment_try_purge/c_seg_try_purge_rec"] + STUBS,
         functions=["mi_segment_schedule_purge", "mi_segment_commit_mask", "mi_commit_mask_create", "mi_commit_mask_set", "mi_commit_mask_create_intersect"], timeout=600, cbmc_flags=NOPTR),
    dict(name="mask_next_run", harness=HS, entry="h_next_run", enforce="_mi_commit_mask_next_run", config="SCALED", label="PC",
         unwind=66, functions=["_mi_commit_mask_next_run"], timeout=600),
    dict(name="seg_try_purge", harness=HS, entry="h_try_purge", enforce="mi_segment_try_purge", config="SCALED", label="P",
         replace=["mi_segment_purge/c_seg_purge_rec", "_mi_commit_mask_next_run/c_next_run_use"] + STUBS,
         loops="loops/seg_try_purge.json", need_ids=["loop_invariant_step"], unwind=14,
         functions=["mi_segment_try_purge", "_mi_commit_mask_next_run"], timeout=900, cbmc_flags=NOPTR),
]
import arena_common, os_common
A = arena_common.pairs(); O = os_common.pairs()
PAIRS += [A["arena_schedule_purge"], A["arena_free"], O["os_purge_ex"]]
PAIRS += [A[k] for k in ("arena_try_purge", "purge_range", "arena_purge_seq")]      # due (or forced) => every scheduled free block of the arena is purged and unscheduled
import heap_collect_common as _hc
PAIRS += [_hc.pair()]      # mi_heap_collect_ex: steps, force flags and order of a collection
