/* replay_main.h -- include at the end of a native replay program; defines main() that loads
   the inputs file written by vc.py ({"name": "value", ...}) and calls VC_REPLAY_ENTRY(). */
#ifdef VC_REPLAY
const char* vc_replay_file;
int vc_replay_failed;
static char vc_buf[1 << 16];
unsigned long long vc_replay_value(const char* name) {
  char key[256];
  snprintf(key, sizeof key, "\"%s\":", name);
  const char* p = strstr(vc_buf, key);
  if (!p) { printf("REPLAY-NOT-REPRODUCED input %s not in counterexample\n", name); exit(3); }
  p += strlen(key);
  while (*p == ' ' || *p == '"') p++;
  if (p[0] == '-') return (unsigned long long)strtoll(p, NULL, 10);
  if (!strncmp(p, "true", 4) || !strncmp(p, "TRUE", 4)) return 1;
  if (!strncmp(p, "false", 5) || !strncmp(p, "FALSE", 5)) return 0;
  return strtoull(p, NULL, 10);
}
int main(int argc, char** argv) {
  if (argc < 2) { printf("usage: %s inputs.json\n", argv[0]); return 2; }
  FILE* f = fopen(argv[1], "r");
  if (!f) { printf("cannot open %s\n", argv[1]); return 2; }
  size_t n = fread(vc_buf, 1, sizeof vc_buf - 1, f); vc_buf[n] = 0; fclose(f);
  VC_REPLAY_ENTRY();
  if (!vc_replay_failed) printf("REPLAY-NOT-REPRODUCED all predicates hold natively\n");
  return vc_replay_failed ? 1 : 0;
}
#endif
