/* assumed body of _mi_ptr_segment for harness/seg_find.c: every span of the harness lives in the one segment object vc_fseg
   (the address arithmetic itself is C16, pair ptr_segment) */
#include "prelude.h"
#include "mimalloc.h"
#include "mimalloc/internal.h"
extern mi_segment_t vc_fseg;
mi_segment_t* _mi_ptr_segment(const void* p) { (void)p; return &vc_fseg; }
