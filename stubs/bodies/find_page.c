/* assumed body of mi_find_page (page.c, static) for the enforcement of _mi_malloc_generic: counts the calls, records the size, and
   yields NULL (first call: g_f1_null, second: g_f2_null) or a fresh page descriptor with arbitrary contents. */
#include "prelude.h"
#include "mimalloc.h"
#include "mimalloc/internal.h"
extern bool g_f1_null, g_f2_null; extern size_t g_find_n, g_find_size;
mi_page_t* mi_find_page(mi_heap_t* heap, size_t size, size_t huge_alignment) {
  g_find_n++; g_find_size = size;
  if (g_find_n == 1 ? g_f1_null : g_f2_null) return NULL;
  mi_page_t* page = malloc(sizeof(mi_page_t));
  __CPROVER_assume(page != NULL);
  return page;
}
