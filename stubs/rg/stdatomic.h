/* Shadow <stdatomic.h> for rely/guarantee obligations (selected with -isystem /verif/stubs/rg).
   mimalloc's own atomic.h is compiled verbatim on top of this.  Every atomic access is
     vc_interfere(addr, size)            -- the environment may change the word (rely relation, harness-supplied)
     the plain sequential effect         -- sequential consistency is ASSUMED (memory orders ignored)
     vc_atomic_wrote(addr, old, new)     -- write hook (harness checks guarantee transitions, keeps ghost state)
   A weak CAS may additionally fail spuriously. */
#ifndef VC_RG_STDATOMIC_H
#define VC_RG_STDATOMIC_H
#include <stddef.h>
#include <stdint.h>
#include <stdbool.h>

#define _Atomic(T) T
typedef enum { memory_order_relaxed, memory_order_consume, memory_order_acquire, memory_order_release,
               memory_order_acq_rel, memory_order_seq_cst } memory_order;
#define ATOMIC_VAR_INIT(x) (x)

void vc_interfere(void* addr, size_t size);
void vc_atomic_wrote(void* addr, uintptr_t oldv, uintptr_t newv);
bool vc_spurious_fail(void);

#define VC_AS_WORD(x) ((uintptr_t)(x))

/* every macro evaluates its pointer argument exactly once (call sites pass `field++`) */
#define atomic_load_explicit(p, mo) \
  ({ __typeof__(p) vc_p = (p); vc_interfere((void*)vc_p, sizeof(*vc_p)); *vc_p; })
#define atomic_store_explicit(p, v, mo) \
  ({ __typeof__(p) vc_p = (p); vc_interfere((void*)vc_p, sizeof(*vc_p)); __typeof__(*vc_p) vc_o = *vc_p; __typeof__(*vc_p) vc_n = (v); *vc_p = vc_n; \
     vc_atomic_wrote((void*)vc_p, VC_AS_WORD(vc_o), VC_AS_WORD(vc_n)); (void)0; })
#define atomic_exchange_explicit(p, v, mo) \
  ({ __typeof__(p) vc_p = (p); vc_interfere((void*)vc_p, sizeof(*vc_p)); __typeof__(*vc_p) vc_o = *vc_p; __typeof__(*vc_p) vc_n = (v); *vc_p = vc_n; \
     vc_atomic_wrote((void*)vc_p, VC_AS_WORD(vc_o), VC_AS_WORD(vc_n)); vc_o; })
#define atomic_compare_exchange_strong_explicit(p, e, d, ms, mf) \
  ({ __typeof__(p) vc_p = (p); __typeof__(e) vc_e = (e); vc_interfere((void*)vc_p, sizeof(*vc_p)); __typeof__(*vc_p) vc_o = *vc_p; bool vc_r = (vc_o == *vc_e); \
     if (vc_r) { __typeof__(*vc_p) vc_n = (d); *vc_p = vc_n; vc_atomic_wrote((void*)vc_p, VC_AS_WORD(vc_o), VC_AS_WORD(vc_n)); } \
     else { *vc_e = vc_o; } vc_r; })
#define atomic_compare_exchange_weak_explicit(p, e, d, ms, mf) \
  ({ __typeof__(p) vc_p = (p); __typeof__(e) vc_e = (e); vc_interfere((void*)vc_p, sizeof(*vc_p)); __typeof__(*vc_p) vc_o = *vc_p; bool vc_r = (vc_o == *vc_e) && !vc_spurious_fail(); \
     if (vc_r) { __typeof__(*vc_p) vc_n = (d); *vc_p = vc_n; vc_atomic_wrote((void*)vc_p, VC_AS_WORD(vc_o), VC_AS_WORD(vc_n)); } \
     else { *vc_e = vc_o; } vc_r; })
#define VC_FETCH_OP(p, v, op) \
  ({ __typeof__(p) vc_p = (p); vc_interfere((void*)vc_p, sizeof(*vc_p)); __typeof__(*vc_p) vc_o = *vc_p; __typeof__(*vc_p) vc_n = (__typeof__(*vc_p))(vc_o op (v)); *vc_p = vc_n; \
     vc_atomic_wrote((void*)vc_p, VC_AS_WORD(vc_o), VC_AS_WORD(vc_n)); vc_o; })
#define atomic_fetch_add_explicit(p, v, mo) VC_FETCH_OP(p, v, +)
#define atomic_fetch_sub_explicit(p, v, mo) VC_FETCH_OP(p, v, -)
#define atomic_fetch_and_explicit(p, v, mo) VC_FETCH_OP(p, v, &)
#define atomic_fetch_or_explicit(p, v, mo)  VC_FETCH_OP(p, v, |)
#define atomic_thread_fence(mo) ((void)0)
#define atomic_signal_fence(mo) ((void)0)
#endif
