/* prelude.h -- shared by every harness.  Nothing here is part of /repo. */
#ifndef VC_PRELUDE_H
#define VC_PRELUDE_H
#include <stddef.h>
#include <stdint.h>
#include <stdbool.h>

#ifdef VC_CBMC
/* reachability marker: must FAIL in every run (vacuity guard) */
#define VC_REACH() __CPROVER_assert(0, "VC_REACH")
/* trusted: alignment hint is the identity */
#define __builtin_assume_aligned(p, ...) (p)
/* spin-wait hint of mi_atomic_yield: no effect */
#define __builtin_ia32_pause() ((void)0)
/* nondeterministic scalars come from bodied helpers (bodyless calls are assert(false) under dfcc) */
/* no string literal reaches the verifier (a havoc of "every object" over string-literal objects aborts CBMC); the draw is
   named after the variable that receives it, which is how the counterexample extractor labels it */
#define VC_ND(T, nm) static inline T vc_nd_##nm(void) { T vc_val; return vc_val; }
VC_ND(size_t, size)
VC_ND(uintptr_t, uptr)
VC_ND(uint64_t, u64)
VC_ND(int64_t, i64)
VC_ND(uint32_t, u32)
VC_ND(uint16_t, u16)
VC_ND(uint8_t, u8)
VC_ND(int, int)
VC_ND(long, long)
static inline bool vc_nd_bool(void) { uint8_t vc_val; return (vc_val & 1) != 0; }   /* a valid _Bool (0/1), not any byte */
#define vc_nondet_size(n) vc_nd_size()
#define vc_nondet_uptr(n) vc_nd_uptr()
#define vc_nondet_u64(n)  vc_nd_u64()
#define vc_nondet_i64(n)  vc_nd_i64()
#define vc_nondet_u32(n)  vc_nd_u32()
#define vc_nondet_u16(n)  vc_nd_u16()
#define vc_nondet_u8(n)   vc_nd_u8()
#define vc_nondet_int(n)  vc_nd_int()
#define vc_nondet_long(n) vc_nd_long()
#define vc_nondet_bool(n) vc_nd_bool()
#define VC_ASSERT(c, txt) __CPROVER_assert((c), txt)
#define VC_ASSUME(c) __CPROVER_assume(c)
#endif /* VC_CBMC */

#ifdef VC_REPLAY
/* native replay: the same harness text, values come from the verifier's counterexample */
#include <stdio.h>
#include <stdlib.h>
#include <string.h>
extern const char* vc_replay_file;
unsigned long long vc_replay_value(const char* name);
#define VC_REACH() ((void)0)
#define VC_ND(T, nm) static inline T vc_nondet_##nm(const char* name) { return (T)vc_replay_value(name); }
VC_ND(size_t, size)
VC_ND(uintptr_t, uptr)
VC_ND(uint64_t, u64)
VC_ND(int64_t, i64)
VC_ND(uint32_t, u32)
VC_ND(uint16_t, u16)
VC_ND(uint8_t, u8)
VC_ND(int, int)
VC_ND(long, long)
VC_ND(bool, bool)
extern int vc_replay_failed;
#define VC_ASSERT(c, txt) do { if (!(c)) { printf("REPLAY-CONFIRMED %s\n", txt); vc_replay_failed = 1; } } while (0)
#define VC_ASSUME(c) do { if (!(c)) { printf("REPLAY-NOT-REPRODUCED assumption does not hold natively: %s\n", #c); exit(3); } } while (0)
#endif /* VC_REPLAY */

#endif
