/* abandon.h -- abandonment marks (C09, C12): contracts on the real arena-abandon.c (part of the arena.c translation unit).
   Included AFTER src/arena.c.  SCALED (small mi_segment_t). */
#ifdef VC_CBMC
bool g_was_set; size_t g_bm_unclaim_n, g_bm_claim_n; size_t g_bm_idx; bool g_bm_claim_waszero;
bool c_bitmap_unclaim_ab(mi_bitmap_t bitmap, size_t bitmap_fields, size_t count, mi_bitmap_index_t bitmap_idx)
__CPROVER_requires(count == 1) __CPROVER_assigns(g_bm_unclaim_n, g_bm_idx)
__CPROVER_ensures(g_bm_unclaim_n == __CPROVER_old(g_bm_unclaim_n) + 1 && g_bm_idx == bitmap_idx && __CPROVER_return_value == g_was_set);
bool c_bitmap_claim_ab(mi_bitmap_t bitmap, size_t bitmap_fields, size_t count, mi_bitmap_index_t bitmap_idx, bool* any_zero)
__CPROVER_requires(count == 1 && any_zero == NULL) __CPROVER_assigns(g_bm_claim_n, g_bm_idx)
__CPROVER_ensures(g_bm_claim_n == __CPROVER_old(g_bm_claim_n) + 1 && g_bm_idx == bitmap_idx && __CPROVER_return_value == g_bm_claim_waszero);
mi_threadid_t _mi_thread_id(void) __CPROVER_requires(1) __CPROVER_assigns() __CPROVER_ensures(__CPROVER_return_value == 77);

size_t g_cnt0; mi_subproc_t* g_sp; size_t g_slot;      /* (arena slot fixed to 0 in VC_ARENA_SEG_OK: a symbolic index into the 132-entry arena table times out) */
#define VC_ARENA_SEG_OK(seg) (__CPROVER_is_fresh(seg, offsetof(mi_segment_t, slices)) && (seg)->memid.memkind == MI_MEM_ARENA && \
   g_slot == 0 && (seg)->memid.mem.arena.id == (int)g_slot + 1 && __CPROVER_is_fresh(mi_arenas[g_slot], sizeof(mi_arena_t)) && mi_arenas[g_slot]->field_count >= 1 && \
   __CPROVER_is_fresh((seg)->subproc, sizeof(mi_subproc_t)) && (seg)->subproc->abandoned_count == g_cnt0 && g_cnt0 >= 1 && g_cnt0 < ((size_t)1 << 40) && g_bm_unclaim_n == 0 && g_bm_claim_n == 0)

/* claim a particular abandoned arena segment: exactly the thread whose atomic clear saw the bit set becomes the owner */
bool _mi_arena_segment_clear_abandoned(mi_segment_t* segment)
__CPROVER_requires(VC_ARENA_SEG_OK(segment) && segment->thread_id == 0)
__CPROVER_assigns(segment->thread_id, segment->subproc->abandoned_count, g_bm_unclaim_n, g_bm_idx)
__CPROVER_ensures(g_bm_unclaim_n == 1 && g_bm_idx == segment->memid.mem.arena.block_index && __CPROVER_return_value == g_was_set)
__CPROVER_ensures(g_was_set ? (segment->thread_id == 77 && segment->subproc->abandoned_count == g_cnt0 - 1) : (segment->thread_id == 0 && segment->subproc->abandoned_count == g_cnt0));

/* abandon: the segment is marked (bit set, count+1) and appears ownerless (thread id 0) */
void _mi_arena_segment_mark_abandoned(mi_segment_t* segment)
__CPROVER_requires(VC_ARENA_SEG_OK(segment) && g_bm_claim_waszero)
__CPROVER_assigns(segment->thread_id, segment->subproc->abandoned_count, g_bm_claim_n, g_bm_idx)
__CPROVER_ensures(segment->thread_id == 0 && g_bm_claim_n == 1 && g_bm_idx == segment->memid.mem.arena.block_index && segment->subproc->abandoned_count == g_cnt0 + 1);

/* cursor step on one bit: a segment of another sub-process is put back (bit set again) and not handed out */
mi_segment_t* g_blockseg;
void* c_arena_block_start_use(mi_arena_t* arena, mi_bitmap_index_t bindex)
__CPROVER_requires(1) __CPROVER_assigns(g_blockseg)
__CPROVER_ensures(__CPROVER_is_fresh(__CPROVER_return_value, offsetof(mi_segment_t, slices)) && g_blockseg == __CPROVER_return_value);
bool g_same_subproc;
static mi_segment_t* mi_arena_segment_clear_abandoned_at(mi_arena_t* arena, mi_subproc_t* subproc, mi_bitmap_index_t bitmap_idx)
__CPROVER_requires(__CPROVER_is_fresh(arena, sizeof(mi_arena_t)) && __CPROVER_is_fresh(subproc, sizeof(mi_subproc_t)) && subproc->abandoned_count == g_cnt0 && g_cnt0 >= 1 && g_bm_unclaim_n == 0 && g_bm_claim_n == 0)
__CPROVER_assigns(subproc->abandoned_count, g_bm_unclaim_n, g_bm_claim_n, g_bm_idx, g_blockseg)
__CPROVER_ensures(g_bm_unclaim_n == 1)
__CPROVER_ensures(!g_was_set ==> (__CPROVER_return_value == NULL && g_bm_claim_n == 0 && subproc->abandoned_count == g_cnt0))
/* bit taken: either the segment is ours (count-1, handed out) or it is put back exactly once (never left unmarked and unowned) */
__CPROVER_ensures(g_was_set ==> ((__CPROVER_return_value != NULL && g_bm_claim_n == 0 && subproc->abandoned_count == g_cnt0 - 1 && __CPROVER_return_value->subproc == subproc) ||
                                 (__CPROVER_return_value == NULL && g_bm_claim_n == 1 && g_bm_idx == bitmap_idx && subproc->abandoned_count == g_cnt0)));

/* OS (non-arena) segments: the abandoned list stays doubly linked; a segment on the list -- also as its ONLY element -- can be claimed.
   (no ghost pointers here: neighbours and sub-process are reached through the segment's own fields) */
size_t g_lcnt0; bool g_has_prev, g_has_next;
#define VC_SEGHDR offsetof(mi_segment_t, slices)
#define VC_SP(s) ((s)->subproc)
static bool mi_arena_segment_os_clear_abandoned(mi_segment_t* segment, bool take_lock)
__CPROVER_requires(!take_lock)      /* (the lock is the caller's in this obligation) */
__CPROVER_requires(__CPROVER_is_fresh(segment, VC_SEGHDR) && segment->memid.memkind != MI_MEM_ARENA && __CPROVER_is_fresh(segment->subproc, sizeof(mi_subproc_t)))
__CPROVER_requires(VC_SP(segment)->abandoned_count == g_cnt0 && VC_SP(segment)->abandoned_os_list_count == g_lcnt0 && g_cnt0 >= g_lcnt0 && g_lcnt0 >= 1 && g_cnt0 < ((size_t)1 << 40))
/* the segment IS on the list: list invariants at its neighbours */
__CPROVER_requires(g_has_prev ? (__CPROVER_is_fresh(segment->abandoned_os_prev, VC_SEGHDR) && segment->abandoned_os_prev->abandoned_os_next == segment) : (segment->abandoned_os_prev == NULL && VC_SP(segment)->abandoned_os_list == segment))
__CPROVER_requires(g_has_next ? (__CPROVER_is_fresh(segment->abandoned_os_next, VC_SEGHDR) && segment->abandoned_os_next->abandoned_os_prev == segment) : (segment->abandoned_os_next == NULL && VC_SP(segment)->abandoned_os_list_tail == segment))
__CPROVER_assigns(segment->abandoned_os_next, segment->abandoned_os_prev, VC_SP(segment)->abandoned_os_list, VC_SP(segment)->abandoned_os_list_tail, VC_SP(segment)->abandoned_count, VC_SP(segment)->abandoned_os_list_count;
                  g_has_prev: segment->abandoned_os_prev->abandoned_os_next; g_has_next: segment->abandoned_os_next->abandoned_os_prev)
__CPROVER_ensures(__CPROVER_return_value)
__CPROVER_ensures(segment->abandoned_os_next == NULL && segment->abandoned_os_prev == NULL && VC_SP(segment)->abandoned_count == g_cnt0 - 1 && VC_SP(segment)->abandoned_os_list_count == g_lcnt0 - 1);
#endif

#ifdef VC_CBMC
/* ---- walking the blocks of abandoned segments (C12): every segment taken from the cursor is put back exactly once, also when the visitor stops ---- */
#ifndef VC_VK
#define VC_VK 2
#endif
size_t g_vnext_n, g_vgot_n, g_vmark_n, g_vvisit_n, g_vdone_n; bool g_opt_visit;
static void c_cursor_init_rec(mi_heap_t* heap, mi_subproc_t* subproc, bool visit_all, mi_arena_field_cursor_t* current)
__CPROVER_requires(__CPROVER_w_ok(current, sizeof(*current))) __CPROVER_assigns(*current) __CPROVER_ensures(1);
static void c_cursor_done_rec(mi_arena_field_cursor_t* current) __CPROVER_requires(1) __CPROVER_assigns(g_vdone_n) __CPROVER_ensures(g_vdone_n == __CPROVER_old(g_vdone_n) + 1);
static mi_segment_t* c_clear_abandoned_next_rec(mi_arena_field_cursor_t* previous)
__CPROVER_requires(1) __CPROVER_assigns(g_vnext_n, g_vgot_n)
__CPROVER_ensures(g_vnext_n == __CPROVER_old(g_vnext_n) + 1 && (__CPROVER_old(g_vgot_n) >= VC_VK ==> __CPROVER_return_value == NULL))
__CPROVER_ensures(__CPROVER_return_value == NULL ? g_vgot_n == __CPROVER_old(g_vgot_n) : (g_vgot_n == __CPROVER_old(g_vgot_n) + 1 && __CPROVER_is_fresh(__CPROVER_return_value, 8)));
static void c_mark_abandoned_rec(mi_segment_t* segment) __CPROVER_requires(1) __CPROVER_assigns(g_vmark_n) __CPROVER_ensures(g_vmark_n == __CPROVER_old(g_vmark_n) + 1);
bool _mi_segment_visit_blocks(mi_segment_t* segment, int heap_tag, bool visit_blocks, mi_block_visit_fun* visitor, void* arg)
__CPROVER_requires(1) __CPROVER_assigns(g_vvisit_n) __CPROVER_ensures(g_vvisit_n == __CPROVER_old(g_vvisit_n) + 1);
mi_subproc_t* _mi_subproc_from_id(mi_subproc_id_t subproc_id) __CPROVER_requires(1) __CPROVER_assigns() __CPROVER_ensures(1);
bool mi_abandoned_visit_blocks(mi_subproc_id_t subproc_id, int heap_tag, bool visit_blocks, mi_block_visit_fun* visitor, void* arg)
__CPROVER_requires(g_vnext_n == 0 && g_vgot_n == 0 && g_vmark_n == 0 && g_vvisit_n == 0 && g_vdone_n == 0)
__CPROVER_assigns(g_vnext_n, g_vgot_n, g_vmark_n, g_vvisit_n, g_vdone_n)
__CPROVER_ensures(g_opt[mi_option_visit_abandoned] == 0 ==> (!__CPROVER_return_value && g_vnext_n == 0))
/* no segment is lost: each one taken is visited once and re-marked once -- whether or not the visitor stopped the walk */
__CPROVER_ensures(g_vgot_n == g_vmark_n && g_vgot_n == g_vvisit_n)
__CPROVER_ensures(g_opt[mi_option_visit_abandoned] != 0 ==> g_vdone_n == 1);      /* the visit lock is released */
#endif
