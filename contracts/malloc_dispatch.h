/* malloc_dispatch.h -- the entry of every allocation in the real alloc.c: which path a request takes and with which arguments (C04: the zero
   flag reaches the page layer unchanged; C06/C03: the size reaches it unchanged plus the padding; small requests use the direct page table).
   The two layers below (_mi_page_malloc_zero: C01/C04; _mi_malloc_generic: C06/C07/C08) are enforced in their own pairs; here they are recorders.
   Included after contracts/alloc.h (uses g_q, g_malloc_*, g_usable_new). */
#ifdef VC_CBMC
size_t g_pm_n; mi_heap_t* g_pm_heap; mi_page_t* g_pm_page; size_t g_pm_size; bool g_pm_zero;
void* c_page_malloc_zero_rec(mi_heap_t* heap, mi_page_t* page, size_t size, bool zero)
__CPROVER_requires(1) __CPROVER_assigns(g_pm_n, g_pm_heap, g_pm_page, g_pm_size, g_pm_zero, g_q)
__CPROVER_ensures(g_pm_n == __CPROVER_old(g_pm_n) + 1 && g_pm_heap == heap && g_pm_page == page && g_pm_size == size && !g_pm_zero == !zero)
__CPROVER_ensures(__CPROVER_return_value == NULL ? g_q == NULL : (__CPROVER_is_fresh(__CPROVER_return_value, 8) && g_q == __CPROVER_return_value));
size_t g_mg_n; mi_heap_t* g_mg_heap; size_t g_mg_size; bool g_mg_zero; size_t g_mg_halign;
void* c_malloc_generic_rec(mi_heap_t* heap, size_t size, bool zero, size_t huge_alignment)
__CPROVER_requires(1) __CPROVER_assigns(g_mg_n, g_mg_heap, g_mg_size, g_mg_zero, g_mg_halign, g_q)
__CPROVER_ensures(g_mg_n == __CPROVER_old(g_mg_n) + 1 && g_mg_heap == heap && g_mg_size == size && !g_mg_zero == !zero && g_mg_halign == huge_alignment)
__CPROVER_ensures(__CPROVER_return_value == NULL ? g_q == NULL : (__CPROVER_is_fresh(__CPROVER_return_value, 8) && g_q == __CPROVER_return_value));
size_t g_sm_n; mi_heap_t* g_sm_heap; size_t g_sm_size; bool g_sm_zero;
static inline void* c_small_zero_rec(mi_heap_t* heap, size_t size, bool zero)
__CPROVER_requires(size <= MI_SMALL_SIZE_MAX)      /* call-site obligation: only small sizes take the direct-table path (the table has MI_PAGES_DIRECT entries) */
__CPROVER_assigns(g_sm_n, g_sm_heap, g_sm_size, g_sm_zero, g_q)
__CPROVER_ensures(g_sm_n == __CPROVER_old(g_sm_n) + 1 && g_sm_heap == heap && g_sm_size == size && !g_sm_zero == !zero)
__CPROVER_ensures(__CPROVER_return_value == NULL ? g_q == NULL : (__CPROVER_is_fresh(__CPROVER_return_value, 8) && g_q == __CPROVER_return_value));
size_t g_ex_n; mi_heap_t* g_ex_heap; size_t g_ex_size; bool g_ex_zero; size_t g_ex_halign;
void* c_malloc_zero_ex_rec(mi_heap_t* heap, size_t size, bool zero, size_t huge_alignment)
__CPROVER_requires(1) __CPROVER_assigns(g_ex_n, g_ex_heap, g_ex_size, g_ex_zero, g_ex_halign, g_q)
__CPROVER_ensures(g_ex_n == __CPROVER_old(g_ex_n) + 1 && g_ex_heap == heap && g_ex_size == size && !g_ex_zero == !zero && g_ex_halign == huge_alignment)
__CPROVER_ensures(__CPROVER_return_value == NULL ? g_q == NULL : (__CPROVER_is_fresh(__CPROVER_return_value, 8) && g_q == __CPROVER_return_value));
/* the recorder form of _mi_heap_malloc_zero that the contracts of mi_heap_malloc / mi_heap_zalloc in contracts/alloc.h are enforced against */
void* c_malloc_zero_rec(mi_heap_t* heap, size_t size, bool zero)
__CPROVER_requires(1) __CPROVER_assigns(g_malloc_n, g_malloc_size, g_malloc_zero, g_malloc_heap, g_q)
__CPROVER_ensures(g_malloc_n == __CPROVER_old(g_malloc_n) + 1 && g_malloc_size == size && !g_malloc_zero == !zero && g_malloc_heap == heap)
__CPROVER_ensures(__CPROVER_return_value == NULL ? g_q == NULL : (__CPROVER_is_fresh(__CPROVER_return_value, g_usable_new) && g_q == __CPROVER_return_value));

/* ---- specifications (ENFORCED) ---- */
#define VC_SMALL_SZ(size) (((MI_PADDING_SIZE > 0 && (size) == 0) ? sizeof(void*) : (size)) + MI_PADDING_SIZE)
/* small path: exactly one page-level allocation, from the page the direct table names for the padded size, same heap, same zero flag; its result is returned */
static inline void* c_small_zero_spec(mi_heap_t* heap, size_t size, bool zero)
__CPROVER_requires(__CPROVER_is_fresh(heap, sizeof(mi_heap_t)) && size <= MI_SMALL_SIZE_MAX && g_pm_n == 0)
__CPROVER_assigns(g_pm_n, g_pm_heap, g_pm_page, g_pm_size, g_pm_zero, g_q)
__CPROVER_ensures(g_pm_n == 1 && g_pm_heap == heap && !g_pm_zero == !zero && g_pm_size == VC_SMALL_SZ(size))
__CPROVER_ensures(g_pm_page == heap->pages_free_direct[(VC_SMALL_SZ(size) + sizeof(uintptr_t) - 1) / sizeof(uintptr_t)])
__CPROVER_ensures(__CPROVER_return_value == g_q);
/* dispatch: small sizes take the small path and nothing else; everything above takes the generic path with the padded size, the zero flag and the huge alignment unchanged */
void* c_malloc_zero_ex_spec(mi_heap_t* heap, size_t size, bool zero, size_t huge_alignment)
__CPROVER_requires(g_sm_n == 0 && g_mg_n == 0 && (size <= MI_SMALL_SIZE_MAX ==> huge_alignment == 0))
__CPROVER_assigns(g_sm_n, g_sm_heap, g_sm_size, g_sm_zero, g_mg_n, g_mg_heap, g_mg_size, g_mg_zero, g_mg_halign, g_q)
__CPROVER_ensures(size <= MI_SMALL_SIZE_MAX ==> (g_sm_n == 1 && g_mg_n == 0 && g_sm_heap == heap && g_sm_size == size && !g_sm_zero == !zero))
__CPROVER_ensures(size >  MI_SMALL_SIZE_MAX ==> (g_mg_n == 1 && g_sm_n == 0 && g_mg_heap == heap && g_mg_size == size + MI_PADDING_SIZE && !g_mg_zero == !zero && g_mg_halign == huge_alignment))
__CPROVER_ensures(__CPROVER_return_value == g_q);
/* _mi_heap_malloc_zero: the same with no huge alignment */
void* c_malloc_zero_spec(mi_heap_t* heap, size_t size, bool zero)
__CPROVER_requires(g_ex_n == 0)
__CPROVER_assigns(g_ex_n, g_ex_heap, g_ex_size, g_ex_zero, g_ex_halign, g_q)
__CPROVER_ensures(g_ex_n == 1 && g_ex_heap == heap && g_ex_size == size && !g_ex_zero == !zero && g_ex_halign == 0 && __CPROVER_return_value == g_q);
#endif
