/* heap_suit.h -- suitability of a memory id for a heap (C15). Shared by the adoption harness (segment.c: contract USED) and the
   heap.c harness (contract ENFORCED against the real _mi_heap_memid_is_suitable, the arena-level contract of contracts/arena.h used). */
#ifndef VC_HEAP_SUIT_H
#define VC_HEAP_SUIT_H
#ifdef VC_CBMC
/* suitability as specified (and enforced on arena.c): bound heap <=> exactly its arena; unbound heap <=> anything but exclusive arenas */
#define VC_SUIT(memid, req) ((req) != 0 ? ((memid).memkind == MI_MEM_ARENA && (memid).mem.arena.id == (req)) : !((memid).memkind == MI_MEM_ARENA && (memid).mem.arena.is_exclusive))
/* type invariant of a memid: arena memory carries the id of a registered arena; ids start at 1 (mi_arena_id_create = index + 1, and
   mi_arena_try_alloc_at builds the memid from arena->id) -- 0 is _mi_arena_id_none(). Same precondition as on arena.c. */
#define VC_MEMID_OK(memid) ((memid).memkind != MI_MEM_ARENA || (memid).mem.arena.id != 0)
bool _mi_heap_memid_is_suitable(mi_heap_t* heap, mi_memid_t memid)     /* heap.c */
__CPROVER_requires(VC_MEMID_OK(memid)) __CPROVER_assigns() __CPROVER_ensures(__CPROVER_return_value == VC_SUIT(memid, heap->arena_id));
#ifdef VC_ARENA_MEMID_SUIT_CONTRACT
/* the arena-level contract: ENFORCED on the real arena.c (pair memid_suitable, contracts/arena.h includes this file), USED on heap.c */
bool _mi_arena_memid_is_suitable(mi_memid_t memid, mi_arena_id_t request_arena_id)
__CPROVER_requires(VC_MEMID_OK(memid)) __CPROVER_assigns()
/* a heap bound to an arena accepts only memory of exactly that arena; an unbound heap accepts anything except exclusive arenas */
__CPROVER_ensures(request_arena_id != 0 ==> (__CPROVER_return_value == (memid.memkind == MI_MEM_ARENA && memid.mem.arena.id == request_arena_id)))
__CPROVER_ensures(request_arena_id == 0 ==> (__CPROVER_return_value == !(memid.memkind == MI_MEM_ARENA && memid.mem.arena.is_exclusive)));
#endif
#endif
#endif
