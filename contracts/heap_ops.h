/* heap_ops.h -- first-class heaps (C10): contracts on the real heap.c. Included AFTER src/heap.c. */
#ifdef VC_CBMC
mi_heap_t* g_to; mi_heap_t* g_from; size_t g_w;       /* witness bin */
size_t g_app_n, g_app_w_n; size_t g_partial_n, g_dfall_n, g_reset_n;
size_t g_order;                                         /* ghost clock to state the order of the steps */
size_t g_partial_at, g_first_app_at, g_last_app_at, g_dfall_at, g_reset_at;
size_t _mi_page_queue_append(mi_heap_t* heap, mi_page_queue_t* pq, mi_page_queue_t* append)
__CPROVER_requires(heap == g_to)                                           /* every page is re-parented to the absorbing heap */
__CPROVER_assigns(g_app_n, g_app_w_n, g_order, g_first_app_at, g_last_app_at)
__CPROVER_ensures(g_app_n == __CPROVER_old(g_app_n) + 1 && g_order == __CPROVER_old(g_order) + 1 && g_last_app_at == g_order &&
                  g_first_app_at == (__CPROVER_old(g_app_n) == 0 ? g_order : __CPROVER_old(g_first_app_at)))
__CPROVER_ensures(g_app_w_n == __CPROVER_old(g_app_w_n) + ((pq == &g_to->pages[g_w] && append == &g_from->pages[g_w]) ? 1 : 0))
__CPROVER_ensures(__CPROVER_return_value <= 65536);
bool _mi_heap_delayed_free_partial(mi_heap_t* heap)
__CPROVER_requires(1) __CPROVER_assigns(g_partial_n, g_order, g_partial_at) __CPROVER_ensures(g_partial_n == __CPROVER_old(g_partial_n) + 1 && g_order == __CPROVER_old(g_order) + 1 && g_partial_at == g_order);
void _mi_heap_delayed_free_all(mi_heap_t* heap)
__CPROVER_requires(heap == g_from) __CPROVER_assigns(g_dfall_n, g_order, g_dfall_at) __CPROVER_ensures(g_dfall_n == __CPROVER_old(g_dfall_n) + 1 && g_order == __CPROVER_old(g_order) + 1 && g_dfall_at == g_order);
static void c_heap_reset_pages_rec(mi_heap_t* heap)
__CPROVER_requires(heap == g_from) __CPROVER_assigns(g_reset_n, g_order, g_reset_at) __CPROVER_ensures(g_reset_n == __CPROVER_old(g_reset_n) + 1 && g_order == __CPROVER_old(g_order) + 1 && g_reset_at == g_order);

/* delete migrates: every page queue of the deleted heap, INCLUDING the full queue, is appended to the same queue of the backing heap */
static void mi_heap_absorb(mi_heap_t* heap, mi_heap_t* from)
__CPROVER_requires(__CPROVER_is_fresh(heap, sizeof(mi_heap_t)) && __CPROVER_is_fresh(from, sizeof(mi_heap_t)) && g_to == heap && g_from == from && g_w <= MI_BIN_FULL)
__CPROVER_requires(g_app_n == 0 && g_app_w_n == 0 && g_partial_n == 0 && g_dfall_n == 0 && g_reset_n == 0 && g_order == 0 && heap->page_count <= ((size_t)1 << 40) && from->page_count <= ((size_t)1 << 40))
__CPROVER_assigns(heap->page_count, from->page_count, g_app_n, g_app_w_n, g_order, g_first_app_at, g_last_app_at, g_partial_n, g_partial_at, g_dfall_n, g_dfall_at, g_reset_n, g_reset_at)
__CPROVER_ensures(__CPROVER_old(from->page_count) == 0 ==> (g_app_n == 0 && g_reset_n == 0))
__CPROVER_ensures(__CPROVER_old(from->page_count) != 0 ==> (g_app_n == MI_BIN_FULL + 1 && g_app_w_n == 1))
/* order: shrink the delayed list first; drain it only after all pages were re-parented; then reset the deleted heap */
__CPROVER_ensures(__CPROVER_old(from->page_count) != 0 ==> (g_partial_n == 1 && g_dfall_n == 1 && g_reset_n == 1 && g_partial_at < g_first_app_at && g_last_app_at < g_dfall_at && g_dfall_at < g_reset_at));

/* recorders for mi_heap_delete / mi_heap_destroy */
size_t g_absorb_n, g_abandon_n, g_hfree_n, g_destroy_pages_n; mi_heap_t* g_absorb_to; mi_heap_t* g_absorb_from; mi_heap_t* g_hfree_h;
static void c_heap_absorb_rec(mi_heap_t* heap, mi_heap_t* from) __CPROVER_requires(1) __CPROVER_assigns(g_absorb_n, g_absorb_to, g_absorb_from, g_order)
__CPROVER_ensures(g_absorb_n == __CPROVER_old(g_absorb_n) + 1 && g_absorb_to == heap && g_absorb_from == from && g_order == __CPROVER_old(g_order) + 1);
void _mi_heap_collect_abandon(mi_heap_t* heap) __CPROVER_requires(1) __CPROVER_assigns(g_abandon_n, g_order) __CPROVER_ensures(g_abandon_n == __CPROVER_old(g_abandon_n) + 1 && g_order == __CPROVER_old(g_order) + 1);
static void c_heap_free_rec(mi_heap_t* heap) __CPROVER_requires(1) __CPROVER_assigns(g_hfree_n, g_hfree_h, g_hfree_at) __CPROVER_ensures(g_hfree_n == __CPROVER_old(g_hfree_n) + 1 && g_hfree_h == heap && g_hfree_at == g_order);
void _mi_heap_destroy_pages(mi_heap_t* heap) __CPROVER_requires(1) __CPROVER_assigns(g_destroy_pages_n, g_order) __CPROVER_ensures(g_destroy_pages_n == __CPROVER_old(g_destroy_pages_n) + 1 && g_order == __CPROVER_old(g_order) + 1);
static void c_heap_delete_rec(mi_heap_t* heap) __CPROVER_requires(1) __CPROVER_assigns(g_delete_n) __CPROVER_ensures(g_delete_n == __CPROVER_old(g_delete_n) + 1);

#define VC_HEAP_TLD_OK(h) (__CPROVER_is_fresh(h, sizeof(mi_heap_t)) && __CPROVER_is_fresh((h)->tld, sizeof(mi_tld_t)) && \
   ((h)->tld->heap_backing == (h) || __CPROVER_is_fresh((h)->tld->heap_backing, sizeof(mi_heap_t))))
#define VC_REC0 (g_absorb_n == 0 && g_abandon_n == 0 && g_hfree_n == 0 && g_destroy_pages_n == 0 && g_delete_n == 0 && g_order == 0)
void mi_heap_delete(mi_heap_t* heap)
__CPROVER_requires(VC_HEAP_TLD_OK(heap) && VC_REC0)
__CPROVER_assigns(g_absorb_n, g_absorb_to, g_absorb_from, g_abandon_n, g_hfree_n, g_hfree_h, g_hfree_at, g_order)
/* a non-backing heap that is compatible with the backing heap migrates its pages there; otherwise its pages are abandoned (still valid, freeable) */
__CPROVER_ensures((heap->tld->heap_backing != heap && heap->tld->heap_backing->tag == heap->tag && heap->tld->heap_backing->arena_id == heap->arena_id)
                  ? (g_absorb_n == 1 && g_absorb_to == heap->tld->heap_backing && g_absorb_from == heap && g_abandon_n == 0) : (g_absorb_n == 0 && g_abandon_n == 1))
/* and only then the heap object is released */
__CPROVER_ensures(g_hfree_n == 1 && g_hfree_h == heap && g_hfree_at == 1);

void mi_heap_destroy(mi_heap_t* heap)
__CPROVER_requires(VC_HEAP_TLD_OK(heap) && VC_REC0)
__CPROVER_assigns(g_destroy_pages_n, g_hfree_n, g_hfree_h, g_hfree_at, g_delete_n, g_order)
/* a heap that may hold reclaimed pages is deleted instead (destroy frees exactly its OWN blocks) */
__CPROVER_ensures(heap->no_reclaim ? (g_destroy_pages_n == 1 && g_hfree_n == 1 && g_hfree_h == heap && g_hfree_at == 1 && g_delete_n == 0) : (g_delete_n == 1 && g_destroy_pages_n == 0 && g_hfree_n == 0));

/* releasing the heap object: the default heap falls back to the backing heap; the heap leaves the thread's list; the backing heap is never freed */
mi_heap_t* g_first; size_t g_setdef_n; mi_heap_t* g_setdef_h; size_t g_mifree_n; void* g_mifree_p; mi_heap_t* g_default;
void _mi_heap_set_default_direct(mi_heap_t* heap) __CPROVER_requires(1) __CPROVER_assigns(g_setdef_n, g_setdef_h) __CPROVER_ensures(g_setdef_n == __CPROVER_old(g_setdef_n) + 1 && g_setdef_h == heap);
void mi_free(void* p) __CPROVER_requires(1) __CPROVER_assigns(g_mifree_n, g_mifree_p) __CPROVER_ensures(g_mifree_n == __CPROVER_old(g_mifree_n) + 1 && g_mifree_p == p);
static inline mi_heap_t* mi_prim_get_default_heap(void) __CPROVER_requires(1) __CPROVER_assigns() __CPROVER_ensures(__CPROVER_return_value == g_default);
static void mi_heap_free(mi_heap_t* heap)
__CPROVER_requires(VC_HEAP_TLD_OK(heap) && g_setdef_n == 0 && g_mifree_n == 0)
/* the thread's heap list: heap is first or second (bounded stand-in for the walk) */
__CPROVER_requires(heap->tld->heaps == heap || (__CPROVER_is_fresh(heap->tld->heaps, sizeof(mi_heap_t)) && heap->tld->heaps->next == heap))
__CPROVER_requires(g_first == heap->tld->heaps)
__CPROVER_assigns(g_setdef_n, g_setdef_h, g_mifree_n, g_mifree_p, heap->tld->heaps; heap->tld->heaps != heap: heap->tld->heaps->next)
__CPROVER_ensures(heap->tld->heap_backing == heap ==> (g_mifree_n == 0 && g_setdef_n == 0))
__CPROVER_ensures(heap->tld->heap_backing != heap ==> (g_mifree_n == 1 && g_mifree_p == heap))
__CPROVER_ensures((heap->tld->heap_backing != heap && g_default == heap) ==> (g_setdef_n == 1 && g_setdef_h == heap->tld->heap_backing))
__CPROVER_ensures((heap->tld->heap_backing != heap && g_default != heap) ==> g_setdef_n == 0)
__CPROVER_ensures((heap->tld->heap_backing != heap) ==> (g_first == heap ? heap->tld->heaps == heap->next : (heap->tld->heaps == g_first && heap->tld->heaps->next == heap->next)));
#endif

#ifdef VC_CBMC
/* ---- mi_heap_destroy, per page: the page is declared empty and handed to the segment layer exactly once; blocks are not visited or freed one by one ---- */
mi_heap_t* g_dheap; mi_tld_t* g_dtld; mi_page_t* g_dpage;
size_t g_udf_n; mi_page_t* g_udf_p; int g_udf_delay; bool g_udf_override;
void _mi_page_use_delayed_free(mi_page_t* page, mi_delayed_t delay, bool override_never)
__CPROVER_requires(1) __CPROVER_assigns(g_udf_n, g_udf_p, g_udf_delay, g_udf_override)
__CPROVER_ensures(g_udf_n == __CPROVER_old(g_udf_n) + 1 && g_udf_p == page && g_udf_delay == (int)delay && !g_udf_override == !override_never);
size_t g_dspf_n; mi_page_t* g_dspf_p; bool g_dspf_force; mi_segments_tld_t* g_dspf_tld; size_t g_dspf_used; size_t g_dspf_udf;
void _mi_segment_page_free(mi_page_t* page, bool force, mi_segments_tld_t* tld)
__CPROVER_requires(1) __CPROVER_assigns(g_dspf_n, g_dspf_p, g_dspf_force, g_dspf_tld, g_dspf_used, g_dspf_udf)
__CPROVER_ensures(g_dspf_n == __CPROVER_old(g_dspf_n) + 1 && g_dspf_p == page && !g_dspf_force == !force && g_dspf_tld == tld && g_dspf_used == page->used && g_dspf_udf == g_udf_n);
static bool _mi_heap_page_destroy(mi_heap_t* heap, mi_page_queue_t* pq, mi_page_t* page, void* arg1, void* arg2)
__CPROVER_requires(heap == g_dheap && page == g_dpage && g_udf_n == 0 && g_dspf_n == 0)
__CPROVER_assigns(__CPROVER_object_whole(g_dpage), __CPROVER_object_whole(g_dtld), g_udf_n, g_udf_p, g_udf_delay, g_udf_override, g_dspf_n, g_dspf_p, g_dspf_force, g_dspf_tld, g_dspf_used, g_dspf_udf)
/* first: no remote free may queue a block of this page on the heap any more */
__CPROVER_ensures(g_udf_n == 1 && g_udf_p == page && g_udf_delay == (int)MI_NEVER_DELAYED_FREE && !g_udf_override)
/* then the page -- detached, with no block counted as used -- goes to the segment layer exactly once, with the heap's own segment data */
__CPROVER_ensures(g_dspf_n == 1 && g_dspf_p == page && !g_dspf_force && g_dspf_tld == &g_dtld->segments && g_dspf_used == 0 && g_dspf_udf == 1)
__CPROVER_ensures(page->used == 0 && page->next == NULL && page->prev == NULL && __CPROVER_return_value);
#endif
