/* span_queue.h -- the doubly linked free-span queues of segment.c (C01/C03 disjointness of spans rests on: a free span is in exactly one
   queue, an allocated span in none). mi_span_queue_push / mi_span_queue_delete are recorders in contracts/seg_span.h; here they are
   ENFORCED on the real segment.c over harness-built nodes (links are assigned by the harness, harness/span_queue.c). */
#ifdef VC_CBMC
mi_span_queue_t* g_sq; mi_slice_t* g_sl;            /* the queue and the span head operated on */
mi_slice_t* g_sprev; mi_slice_t* g_snext;           /* its neighbours (NULL = none) */
mi_slice_t* g_sfirst; mi_slice_t* g_slast;          /* queue ends before the call */
/* `slice` is linked into `sq` between g_sprev and g_snext: no neighbour on a side <=> it is the queue end on that side */
#define VC_SQ_IN(sq, slice) ((slice)->prev == g_sprev && (slice)->next == g_snext && (sq)->first == g_sfirst && (sq)->last == g_slast && \
  (g_sprev == NULL ? g_sfirst == (slice) : (g_sprev->next == (slice) && g_sfirst != (slice))) && \
  (g_snext == NULL ? g_slast  == (slice) : (g_snext->prev == (slice) && g_slast  != (slice))))
/* push at the front: the span becomes the first element, the old first element (if any) follows it and points back, the tail is untouched
   unless the queue was empty; the span is marked free (block_size 0) -- every other field of every node is unchanged */
static void c_sq_push_spec(mi_span_queue_t* sq, mi_slice_t* slice)
__CPROVER_requires(sq == g_sq && slice == g_sl && sq->first == g_sfirst && sq->last == g_slast && (g_sfirst == NULL) == (g_slast == NULL) && g_sfirst != g_sl)
__CPROVER_assigns(__CPROVER_object_whole(g_sl), __CPROVER_object_whole(g_sq); g_sfirst != NULL: __CPROVER_object_whole(g_sfirst))
__CPROVER_ensures(sq->first == slice && slice->prev == NULL && slice->next == g_sfirst && slice->block_size == 0)
__CPROVER_ensures(g_sfirst != NULL ? (g_sfirst->prev == slice && sq->last == g_slast) : sq->last == slice)
__CPROVER_ensures(slice->slice_count == __CPROVER_old(slice->slice_count) && slice->slice_offset == __CPROVER_old(slice->slice_offset) && sq->slice_count == __CPROVER_old(sq->slice_count))
__CPROVER_ensures(g_sfirst != NULL ==> (g_sfirst->next == __CPROVER_old(g_sfirst->next) && g_sfirst->block_size == __CPROVER_old(g_sfirst->block_size) && g_sfirst->slice_count == __CPROVER_old(g_sfirst->slice_count)));
/* delete: the neighbours are linked to each other, the queue ends move past the span, the span is unlinked and marked in use (block_size 1) */
static void c_sq_delete_spec(mi_span_queue_t* sq, mi_slice_t* slice)
__CPROVER_requires(sq == g_sq && slice == g_sl && VC_SQ_IN(sq, slice))
__CPROVER_assigns(__CPROVER_object_whole(g_sl), __CPROVER_object_whole(g_sq); g_sprev != NULL: __CPROVER_object_whole(g_sprev); g_snext != NULL: __CPROVER_object_whole(g_snext))
__CPROVER_ensures(slice->prev == NULL && slice->next == NULL && slice->block_size == 1)
__CPROVER_ensures(g_sprev != NULL ? (g_sprev->next == g_snext && sq->first == g_sfirst) : sq->first == g_snext)
__CPROVER_ensures(g_snext != NULL ? (g_snext->prev == g_sprev && sq->last == g_slast) : sq->last == g_sprev)
__CPROVER_ensures(slice->slice_count == __CPROVER_old(slice->slice_count) && slice->slice_offset == __CPROVER_old(slice->slice_offset) && sq->slice_count == __CPROVER_old(sq->slice_count))
__CPROVER_ensures((g_sprev != NULL ==> (g_sprev->prev == __CPROVER_old(g_sprev->prev) && g_sprev->block_size == __CPROVER_old(g_sprev->block_size))) &&
                  (g_snext != NULL ==> (g_snext->next == __CPROVER_old(g_snext->next) && g_snext->block_size == __CPROVER_old(g_snext->block_size))));
/* delete of a span that is in NO queue (the code comment: "can happen during reclaim"): the queue is not disturbed */
static void c_sq_delete_absent_spec(mi_span_queue_t* sq, mi_slice_t* slice)
__CPROVER_requires(sq == g_sq && slice == g_sl && slice->prev == NULL && slice->next == NULL && sq->first == g_sfirst && sq->last == g_slast && g_sfirst != g_sl && g_slast != g_sl)
__CPROVER_assigns(__CPROVER_object_whole(g_sl), __CPROVER_object_whole(g_sq))
__CPROVER_ensures(sq->first == g_sfirst && sq->last == g_slast && slice->prev == NULL && slice->next == NULL && slice->block_size == 1);
/* mi_segment_span_remove_from_queue: the span is deleted exactly once, from the queue of ITS size bin (the queue mi_segment_span_free pushed it to:
   contracts/seg_span.h, pair span_free, uses the same real mi_span_queue_for) -- g_bin is mi_slice_bin(slice_count), computed by the harness with the real function */
size_t g_sqdel_n; mi_span_queue_t* g_sqdel_sq; mi_slice_t* g_sqdel_slice; size_t g_bin; mi_segments_tld_t* g_stld;
static void c_sq_delete_rec2(mi_span_queue_t* sq, mi_slice_t* slice)
__CPROVER_requires(1) __CPROVER_assigns(g_sqdel_n, g_sqdel_sq, g_sqdel_slice) __CPROVER_ensures(g_sqdel_n == __CPROVER_old(g_sqdel_n) + 1 && g_sqdel_sq == sq && g_sqdel_slice == slice);
static void c_span_remove_spec(mi_slice_t* slice, mi_segments_tld_t* tld)
__CPROVER_requires(slice == g_sl && tld == g_stld && slice->block_size == 0 && slice->slice_count >= 1 && slice->slice_count <= MI_SLICES_PER_SEGMENT && slice->slice_offset == 0 && g_sqdel_n == 0 && g_bin <= MI_SEGMENT_BIN_MAX)
__CPROVER_assigns(g_sqdel_n, g_sqdel_sq, g_sqdel_slice)
__CPROVER_ensures(g_sqdel_n == 1 && g_sqdel_slice == slice && g_sqdel_sq == &tld->spans[g_bin]);
#endif
