/* page.c: giving an empty page back (C11, C08): _mi_page_retire decides keep-for-a-while vs free, _mi_page_free unlinks and hands the page to
   the segment layer.  Harness-built heap / tld / page (the page's heap is an integer field that the code casts back to a pointer). */
#ifdef VC_CBMC
mi_heap_t* g_fheap; mi_tld_t* g_ftld; mi_page_t* g_fpage;
size_t g_qr_n; mi_page_queue_t* g_qr_q; mi_page_t* g_qr_p;
static void c_queue_remove_rec(mi_page_queue_t* queue, mi_page_t* page)
__CPROVER_requires(1) __CPROVER_assigns(g_qr_n, g_qr_q, g_qr_p) __CPROVER_ensures(g_qr_n == __CPROVER_old(g_qr_n) + 1 && g_qr_q == queue && g_qr_p == page);
size_t g_spf_n; mi_page_t* g_spf_p; bool g_spf_force; mi_segments_tld_t* g_spf_tld; size_t g_spf_after_remove;
void _mi_segment_page_free(mi_page_t* page, bool force, mi_segments_tld_t* tld)
__CPROVER_requires(1) __CPROVER_assigns(g_spf_n, g_spf_p, g_spf_force, g_spf_tld, g_spf_after_remove)
__CPROVER_ensures(g_spf_n == __CPROVER_old(g_spf_n) + 1 && g_spf_p == page && !g_spf_force == !force && g_spf_tld == tld && g_spf_after_remove == g_qr_n);

void _mi_page_free(mi_page_t* page, mi_page_queue_t* pq, bool force)
__CPROVER_requires(page == g_fpage && g_qr_n == 0 && g_spf_n == 0)
__CPROVER_assigns(__CPROVER_object_whole(g_fpage), __CPROVER_object_whole(g_ftld), g_qr_n, g_qr_q, g_qr_p, g_spf_n, g_spf_p, g_spf_force, g_spf_tld, g_spf_after_remove)
/* unlinked from exactly its queue, detached from the heap, and only then handed to the segment layer -- exactly once, with the heap's own segment data */
__CPROVER_ensures(g_qr_n == 1 && g_qr_q == pq && g_qr_p == page)
__CPROVER_ensures(g_spf_n == 1 && g_spf_p == page && !g_spf_force == !force && g_spf_tld == &g_ftld->segments && g_spf_after_remove == 1)
__CPROVER_ensures(page->xheap == 0 && !page->flags.x.has_aligned);

size_t g_pf_n; mi_page_t* g_pf_p; mi_page_queue_t* g_pf_q; bool g_pf_force;
void c_page_free_rec(mi_page_t* page, mi_page_queue_t* pq, bool force)
__CPROVER_requires(1) __CPROVER_assigns(g_pf_n, g_pf_p, g_pf_q, g_pf_force) __CPROVER_ensures(g_pf_n == __CPROVER_old(g_pf_n) + 1 && g_pf_p == page && g_pf_q == pq && !g_pf_force == !force);
size_t g_rmin0, g_rmax0, g_bin;   /* logical: retired-bin range before the call; the bin of the page's queue */
#define VC_PQ            (&g_fheap->pages[g_bin])
#define VC_ONLY_PAGE     (VC_PQ->first == g_fpage && VC_PQ->last == g_fpage)
#define VC_SPECIALQ      (g_bin == MI_BIN_HUGE || g_bin == MI_BIN_FULL)
void _mi_page_retire(mi_page_t* page)
__CPROVER_requires(page == g_fpage && g_pf_n == 0 && g_fheap->page_retired_min == g_rmin0 && g_fheap->page_retired_max == g_rmax0 && g_bin <= MI_BIN_FULL)
/* g_bin is the bin of the page's queue: full / huge / _mi_bin(block size) -- computed by the harness with the real _mi_bin before the call (a call
   inside a contract clause is mis-instrumented by dfcc: "not enough arguments, inserting non-deterministic value") */
__CPROVER_requires(page->block_size >= 8)
/* ... and the two special queues (huge, full) are exactly the ones whose nominal block size lies above the medium limit (as in _mi_heap_empty) */
__CPROVER_requires((g_bin >= MI_BIN_HUGE) == (g_fheap->pages[g_bin].block_size > MI_MEDIUM_OBJ_SIZE_MAX))
__CPROVER_assigns(__CPROVER_object_whole(g_fpage), g_fheap->page_retired_min, g_fheap->page_retired_max, g_pf_n, g_pf_p, g_pf_q, g_pf_force)
__CPROVER_ensures(!page->flags.x.has_aligned)
/* the only page of an ordinary size class is kept for a number of cycles, and its bin is inside the range that _mi_heap_collect_retired scans: it is not forgotten */
__CPROVER_ensures((!VC_SPECIALQ && VC_ONLY_PAGE) ==> (g_pf_n == 0 && page->retire_expire == (page->block_size <= MI_SMALL_OBJ_SIZE_MAX ? 16 : 4) &&
                   g_fheap->page_retired_min == (g_bin < g_rmin0 ? g_bin : g_rmin0) && g_fheap->page_retired_max == (g_bin > g_rmax0 ? g_bin : g_rmax0)))
/* every other empty page is freed at once, from its own queue, not forced */
__CPROVER_ensures(!(!VC_SPECIALQ && VC_ONLY_PAGE) ==> (g_pf_n == 1 && g_pf_p == page && g_pf_q == VC_PQ && !g_pf_force && g_fheap->page_retired_min == g_rmin0 && g_fheap->page_retired_max == g_rmax0));
#endif

#ifdef VC_CBMC
/* ---- abandoning a page that still holds live blocks (thread exit, C09): unlinked from exactly its queue, detached from the heap, and only
   then handed to the segment layer -- exactly once, with the heap's own segment data; nothing is freed ---- */
size_t g_spa_n; mi_page_t* g_spa_p; mi_segments_tld_t* g_spa_tld; size_t g_spa_after_remove; uintptr_t g_spa_xheap;
void _mi_segment_page_abandon(mi_page_t* page, mi_segments_tld_t* tld)
__CPROVER_requires(1) __CPROVER_assigns(g_spa_n, g_spa_p, g_spa_tld, g_spa_after_remove, g_spa_xheap)
__CPROVER_ensures(g_spa_n == __CPROVER_old(g_spa_n) + 1 && g_spa_p == page && g_spa_tld == tld && g_spa_after_remove == g_qr_n && g_spa_xheap == page->xheap);
void _mi_page_abandon(mi_page_t* page, mi_page_queue_t* pq)
__CPROVER_requires(page == g_fpage && g_qr_n == 0 && g_spa_n == 0 && g_spf_n == 0)
__CPROVER_assigns(__CPROVER_object_whole(g_fpage), g_qr_n, g_qr_q, g_qr_p, g_spa_n, g_spa_p, g_spa_tld, g_spa_after_remove, g_spa_xheap)
__CPROVER_ensures(g_qr_n == 1 && g_qr_q == pq && g_qr_p == page)
__CPROVER_ensures(g_spa_n == 1 && g_spa_p == page && g_spa_tld == &g_ftld->segments && g_spa_after_remove == 1 && g_spa_xheap == 0)
__CPROVER_ensures(page->xheap == 0 && g_spf_n == 0 && page->used == __CPROVER_old(page->used));
#endif

#ifdef VC_CBMC
/* ---- _mi_heap_collect_retired: retired pages are found again.  The walk over bins [page_retired_min, page_retired_max] has a loop contract; the
   harness installs ONE retired candidate page at the witness bin g_bin (assigned pointer) and leaves every other queue empty: the bins do not
   interact except through the min/max bookkeeping, which the invariant tracks for the witness bin. ---- */
uint8_t g_rex0; bool g_allfree;    /* logical: the witness page's retire_expire before the call; are all its blocks free? */
#define VC_WPAGE_IN_RANGE (g_rmin0 <= g_bin && g_bin <= g_rmax0)
void _mi_heap_collect_retired(mi_heap_t* heap, bool force)
__CPROVER_requires(heap == g_fheap && g_pf_n == 0 && heap->page_retired_min == g_rmin0 && heap->page_retired_max == g_rmax0 && g_rmax0 <= MI_BIN_FULL && g_bin <= MI_BIN_FULL)
__CPROVER_requires(heap->pages[g_bin].first == g_fpage && g_fpage->retire_expire == g_rex0 && !g_allfree == !(g_fpage->used == 0))
__CPROVER_assigns(__CPROVER_object_whole(g_fpage), heap->page_retired_min, heap->page_retired_max, g_pf_n, g_pf_p, g_pf_q, g_pf_force)
/* a retired page inside the scanned range whose blocks are all free: freed when forced or when its count-down ends; otherwise it stays retired,
   counted down by one, and stays inside the range that the next call scans */
__CPROVER_ensures((VC_WPAGE_IN_RANGE && g_rex0 != 0 && g_allfree && (force || g_rex0 == 1)) ==> (g_pf_n == 1 && g_pf_p == g_fpage && g_pf_q == &heap->pages[g_bin] && !g_pf_force == !force))
__CPROVER_ensures((VC_WPAGE_IN_RANGE && g_rex0 != 0 && g_allfree && !(force || g_rex0 == 1)) ==> (g_pf_n == 0 && g_fpage->retire_expire == g_rex0 - 1 &&
                   heap->page_retired_min <= g_bin && g_bin <= heap->page_retired_max))
/* a page that got a new live block is no longer retired and is never freed here */
__CPROVER_ensures((VC_WPAGE_IN_RANGE && g_rex0 != 0 && !g_allfree) ==> (g_pf_n == 0 && g_fpage->retire_expire == 0))
__CPROVER_ensures((!VC_WPAGE_IN_RANGE || g_rex0 == 0) ==> (g_pf_n == 0 && g_fpage->retire_expire == g_rex0));
#endif
