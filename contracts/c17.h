/* c17.h -- hardened build (MI_SECURE=4): double free, corrupted links (C17). Included AFTER src/alloc.c (free.c). */
#ifdef VC_CBMC
bool g_same;                 /* logical: mi_is_in_same_page(block, decoded link) */
bool g_in_free, g_in_local, g_in_tf;      /* logical: the block is on the page's free / local_free / thread_free list */
size_t g_same_n, g_contains_n;
#define VC_OWN_ERROR_MESSAGE
/* recorder for the error callback path */
void c_error_message_rec(int err, const char* fmt, ...)     /* (the variadic tail is not inspected) */
__CPROVER_requires(1) __CPROVER_assigns(g_err, g_err_n) __CPROVER_ensures(g_err == err && g_err_n == __CPROVER_old(g_err_n) + 1);

static inline bool c_is_in_same_page_use(const void* p, const void* q)
__CPROVER_requires(1) __CPROVER_assigns(g_same_n) __CPROVER_ensures(__CPROVER_return_value == g_same && g_same_n == __CPROVER_old(g_same_n) + 1);
static bool c_list_contains_use(const mi_page_t* page, const mi_block_t* list, const mi_block_t* elem)
__CPROVER_requires(1) __CPROVER_assigns(g_contains_n)
__CPROVER_ensures(g_contains_n == __CPROVER_old(g_contains_n) + 1)
__CPROVER_ensures(__CPROVER_return_value == ((list != NULL) && (list == page->free ? g_in_free : (list == page->local_free ? g_in_local : g_in_tf))));

/* decode of an encoded link, written out (function calls inside contract clauses are not reliable) */
#define VC_ROTR(x, s) ((((s) % 64) == 0) ? (uintptr_t)(x) : ((((uintptr_t)(x)) >> ((s) % 64)) | (((uintptr_t)(x)) << (64 - ((s) % 64)))))
#define VC_DECRAW(x, k) ((void*)(VC_ROTR((uintptr_t)(x) - (k)[0], (k)[0]) ^ (k)[1]))
#define VC_DECODE(null, x, k) (VC_DECRAW(x, k) == (void*)(null) ? (void*)NULL : VC_DECRAW(x, k))
/* a link that decodes to an address outside the block's page area is reported (EFAULT) and cut, never followed */
mi_block_t* g_decoded;
static inline mi_block_t* mi_block_next(const mi_page_t* page, const mi_block_t* block)
__CPROVER_requires(__CPROVER_is_fresh(page, sizeof(mi_page_t)) && __CPROVER_is_fresh(block, sizeof(mi_block_t)) && g_err_n == 0)
__CPROVER_requires(g_decoded == (mi_block_t*)VC_DECODE(page, block->next, page->keys))
__CPROVER_assigns(g_err, g_err_n, g_same_n)
__CPROVER_ensures(g_decoded == NULL ==> (__CPROVER_return_value == NULL && g_err_n == 0))
__CPROVER_ensures((g_decoded != NULL && g_same) ==> (__CPROVER_return_value == g_decoded && g_err_n == 0))
__CPROVER_ensures((g_decoded != NULL && !g_same) ==> (__CPROVER_return_value == NULL && g_err_n == 1 && g_err == EFAULT));

/* second free of a block: its first word decodes to NULL or into its own page area, and it is found on one of the page's lists */
static inline bool mi_check_is_double_free(const mi_page_t* page, const mi_block_t* block)
__CPROVER_requires(__CPROVER_is_fresh(page, sizeof(mi_page_t)) && __CPROVER_is_fresh(block, sizeof(mi_block_t)) && g_err_n == 0 && g_contains_n == 0)
__CPROVER_requires(g_decoded == (mi_block_t*)VC_DECODE(page, block->next, page->keys))
__CPROVER_requires(page->free == NULL || page->local_free == NULL || page->free != page->local_free)      /* the three lists are disjoint (C01) */
__CPROVER_requires(((mi_block_t*)(page->xthread_free & ~(uintptr_t)3)) == NULL || (((mi_block_t*)(page->xthread_free & ~(uintptr_t)3)) != page->free && ((mi_block_t*)(page->xthread_free & ~(uintptr_t)3)) != page->local_free))
__CPROVER_assigns(g_err, g_err_n, g_same_n, g_contains_n)
#define VC_SUSPICIOUS (((uintptr_t)g_decoded & 7) == 0 && (g_decoded == NULL || g_same))
#define VC_ONLIST ((page->free != NULL && g_in_free) || (page->local_free != NULL && g_in_local) || (((mi_block_t*)(page->xthread_free & ~(uintptr_t)3)) != NULL && g_in_tf))
__CPROVER_ensures(__CPROVER_return_value == (VC_SUSPICIOUS && VC_ONLIST))
__CPROVER_ensures(__CPROVER_return_value ? (g_err_n == 1 && g_err == EAGAIN) : g_err_n == 0)
/* a live block whose first word is ordinary data (decodes outside its page) is not even walked */
__CPROVER_ensures(!VC_SUSPICIOUS ==> g_contains_n == 0);

/* the hardened free ignores a detected double free: nothing changes */
size_t g_dfree_n; bool g_dfree_ret;
static inline bool c_check_is_double_free_use(const mi_page_t* page, const mi_block_t* block)
__CPROVER_requires(1) __CPROVER_assigns(g_dfree_n) __CPROVER_ensures(g_dfree_n == __CPROVER_old(g_dfree_n) + 1 && __CPROVER_return_value == g_dfree_ret);
size_t g_checkpad_n, g_retire_n, g_unfull_n;
static void c_check_padding_use(const mi_page_t* page, const mi_block_t* block) __CPROVER_requires(1) __CPROVER_assigns(g_checkpad_n) __CPROVER_ensures(g_checkpad_n == __CPROVER_old(g_checkpad_n) + 1);
void _mi_page_retire(mi_page_t* page) __CPROVER_requires(1) __CPROVER_assigns(g_retire_n) __CPROVER_ensures(g_retire_n == __CPROVER_old(g_retire_n) + 1);
void _mi_page_unfull(mi_page_t* page) __CPROVER_requires(1) __CPROVER_assigns(g_unfull_n) __CPROVER_ensures(g_unfull_n == __CPROVER_old(g_unfull_n) + 1);
uint16_t g_used0; mi_block_t* g_lf0; mi_encoded_t g_word0;
static inline void mi_free_block_local(mi_page_t* page, mi_block_t* block, bool track_stats, bool check_full)
__CPROVER_requires(__CPROVER_is_fresh(page, sizeof(mi_page_t)) && __CPROVER_is_fresh(block, 64) && page->used == g_used0 && g_used0 >= 1 && page->local_free == g_lf0 && block->next == g_word0)
__CPROVER_requires((void*)g_lf0 != (void*)page)           /* a block never has the address of its page descriptor (the NULL sentinel of the encoding) */
__CPROVER_requires(g_dfree_n == 0 && g_checkpad_n == 0 && g_retire_n == 0 && g_unfull_n == 0)
__CPROVER_assigns(page->local_free, page->used, block->next, g_dfree_n, g_checkpad_n, g_retire_n, g_unfull_n)
__CPROVER_ensures(g_dfree_n == 1)
__CPROVER_ensures(g_dfree_ret ==> (page->used == g_used0 && page->local_free == g_lf0 && block->next == g_word0 && g_retire_n == 0 && g_unfull_n == 0 && g_checkpad_n == 0))
__CPROVER_ensures(!g_dfree_ret ==> (page->used == g_used0 - 1 && page->local_free == block && g_checkpad_n == 1 &&
     (mi_block_t*)VC_DECODE(page, block->next, page->keys) == g_lf0));
#endif
