/* c11.h -- freed memory is given back (property C11): contracts on the real os.c */
#ifndef VC_C11_H
#define VC_C11_H
#ifdef VC_CBMC
void*  g_region_base;   /* logical: base of the live OS mapping that the memid describes */
size_t g_region_size;   /* logical: its size */
size_t g_good;          /* logical: _mi_os_good_alloc_size(size) */

size_t _mi_os_good_alloc_size(size_t size)
__CPROVER_requires(1) __CPROVER_assigns()
__CPROVER_ensures(__CPROVER_return_value == g_good);

/* The same function against its specification (ENFORCED on the real os.c, pair good_alloc_size): a pure rounding-up of `size` --
   never below the request (a region recorded with this size covers the block), less than one rounding unit (<= 4 MiB) above it,
   a multiple of the OS page size unless the sum would overflow, and no state read or written except the page-size constant
   (assigns(): so two calls with the same size -- one at allocation, one at free, F-C11 -- agree, which is what the logical
   variable g_good of the contract above stands for). These are the facts the contracts below assume about g_good. */
static size_t c_good_alloc_size_spec(size_t size)
__CPROVER_requires(VC_POW2(g_os_page_size) && g_os_page_size >= 512 && g_os_page_size <= 65536) __CPROVER_assigns()
__CPROVER_ensures(__CPROVER_return_value >= size && __CPROVER_return_value - size < ((size_t)4 << 20))
__CPROVER_ensures(size < 512*1024 ==> __CPROVER_return_value - size < g_os_page_size)
__CPROVER_ensures(size < SIZE_MAX - ((size_t)4 << 20) ==> (__CPROVER_return_value & (g_os_page_size - 1)) == 0)
__CPROVER_ensures(size < ((size_t)1 << 40) ==> __CPROVER_return_value < ((size_t)1 << 41))
__CPROVER_ensures((size & (((size_t)4 << 20) - 1)) == 0 ==> __CPROVER_return_value == size);     /* already rounded: unchanged (idempotence) */

/* `memid` describes the live mapping [g_region_base, +g_region_size) as _mi_os_alloc(_aligned(_at_offset)) leave it:
   recorded base (or none: then the region starts at addr), recorded size 0, and
   (addr - base) + good_size(size) == size of the region. */
#define VC_MEMID_DESCRIBES(addr, size, memid) \
  ( ((memid).mem.os.base == NULL ? (addr) == g_region_base : (memid).mem.os.base == g_region_base) \
    && __CPROVER_same_object(addr, g_region_base) \
    && __CPROVER_POINTER_OFFSET(addr) >= __CPROVER_POINTER_OFFSET(g_region_base) \
    && (memid).mem.os.size == 0 \
    && g_good >= (size) && g_good < ((size_t)1 << 48) \
    && (size_t)(__CPROVER_POINTER_OFFSET(addr) - __CPROVER_POINTER_OFFSET(g_region_base)) + g_good == g_region_size )

void _mi_os_free_ex(void* addr, size_t size, bool still_committed, mi_memid_t memid)
__CPROVER_requires(size > 0)
__CPROVER_requires(__CPROVER_is_fresh(g_region_base, g_region_size) && g_region_size > 0 && g_region_size < ((size_t)1 << 48))
__CPROVER_requires(memid.memkind == MI_MEM_OS ==> VC_MEMID_DESCRIBES(addr, size, memid))
__CPROVER_requires(memid.memkind != MI_MEM_OS_HUGE && memid.memkind != MI_MEM_OS_REMAP)
__CPROVER_requires(g_unmap_n == 0)
__CPROVER_assigns(g_unmap_n, g_unmap_base, g_unmap_size, g_unmap_bytes)
/* exactly one munmap, of exactly the region */
__CPROVER_ensures(memid.memkind == MI_MEM_OS ==> (g_unmap_n == 1 && g_unmap_base == g_region_base && g_unmap_size == g_region_size))
/* memory that did not come from the OS is never passed to munmap */
__CPROVER_ensures(memid.memkind != MI_MEM_OS ==> g_unmap_n == 0);

/* plain OS allocation: the memid handed back describes exactly what was mapped */
void* _mi_os_alloc(size_t size, mi_memid_t* memid)
__CPROVER_requires(__CPROVER_is_fresh(memid, sizeof(mi_memid_t)))
__CPROVER_requires(size < ((size_t)1 << 40))
__CPROVER_requires(g_map_n == 0 && g_map_bytes == 0 && g_unmap_n == 0 && g_unmap_bytes == 0)
__CPROVER_assigns(*memid, g_map_n, g_map_bytes)
__CPROVER_ensures(__CPROVER_return_value == NULL ==> (g_map_bytes == 0 && memid->memkind == MI_MEM_NONE))
__CPROVER_ensures(__CPROVER_return_value != NULL ==> (memid->memkind == MI_MEM_OS && g_map_n == 1 && g_map_bytes == g_good
        && memid->mem.os.size == 0 && (memid->mem.os.base == NULL || memid->mem.os.base == __CPROVER_return_value)));

/* aligned OS allocation (with the over-allocate-and-trim fallback): on failure nothing stays mapped, on success
   exactly `size` bytes stay mapped, they start at the returned pointer, it is aligned, and the memid says so */
size_t g_align;
void* _mi_os_alloc_aligned(size_t size, size_t alignment, bool commit, bool allow_large, mi_memid_t* memid)
__CPROVER_requires(__CPROVER_is_fresh(memid, sizeof(mi_memid_t)))
__CPROVER_requires(VC_POW2(g_os_page_size) && g_os_page_size >= 4096 && g_os_page_size <= 65536)
__CPROVER_requires(size > 0 && size < ((size_t)1 << 40) && g_good >= size && g_good < ((size_t)1 << 41) && (g_good & (g_os_page_size - 1)) == 0)
__CPROVER_requires(alignment == g_align && VC_POW2(g_align) && g_align >= g_os_page_size && g_align <= ((size_t)1 << 32))
__CPROVER_requires(g_map_n == 0 && g_map_bytes == 0 && g_unmap_n == 0 && g_unmap_bytes == 0)
__CPROVER_assigns(*memid, g_map_n, g_map_bytes, g_unmap_n, g_unmap_base, g_unmap_size, g_unmap_bytes)
__CPROVER_ensures(__CPROVER_return_value == NULL ==> (g_map_bytes == g_unmap_bytes && memid->memkind == MI_MEM_NONE))
__CPROVER_ensures(__CPROVER_return_value != NULL ==> (g_map_bytes - g_unmap_bytes == g_good))
__CPROVER_ensures(__CPROVER_return_value != NULL ==> (((uintptr_t)__CPROVER_return_value % g_align) == 0))
__CPROVER_ensures(__CPROVER_return_value != NULL ==> (memid->memkind == MI_MEM_OS && memid->mem.os.base == __CPROVER_return_value && memid->mem.os.size == 0));
#endif
#endif
