/* os_commit.h -- commit / purge at the OS layer (C07, C13, C18): contracts on the real os.c. Included AFTER src/os.c. */
#ifdef VC_CBMC
uint8_t* g_area; size_t g_aoff;     /* the range starts at byte g_aoff of the object g_area (any address) */
#define VC_AO(p) __CPROVER_POINTER_OFFSET(p)
#define VC_PS g_os_page_size
#define VC_PS_OK (VC_POW2(VC_PS) && VC_PS >= 4096 && VC_PS <= ((size_t)1 << 21) && mi_os_mem_config.page_size == VC_PS)

/* inner (conservative) rounding for purge/protect, outer (liberal) rounding for commit */
static void* mi_os_page_align_areax(bool conservative, void* addr, size_t size, size_t* newsize)
__CPROVER_requires(VC_PS_OK && g_area != NULL && addr == g_area + g_aoff && g_aoff >= VC_PS && g_aoff <= ((size_t)1 << 45) && size <= ((size_t)1 << 45))
__CPROVER_requires(__CPROVER_is_fresh(newsize, sizeof(size_t)))
__CPROVER_assigns(*newsize)
__CPROVER_ensures(__CPROVER_return_value == NULL ? *newsize == 0 : (*newsize > 0 && __CPROVER_same_object(__CPROVER_return_value, g_area) &&
     (VC_AO(__CPROVER_return_value) & (VC_PS - 1)) == 0 && (*newsize & (VC_PS - 1)) == 0))
/* conservative: only whole pages inside [addr, addr+size) */
__CPROVER_ensures((conservative && __CPROVER_return_value != NULL) ==> (VC_AO(__CPROVER_return_value) >= g_aoff && VC_AO(__CPROVER_return_value) + *newsize <= g_aoff + size))
__CPROVER_ensures((conservative && __CPROVER_return_value == NULL) ==> size < 2 * VC_PS)     /* nothing only if no whole page fits */
/* liberal: every page the range touches, and no page more */
__CPROVER_ensures((!conservative && size > 0) ==> (__CPROVER_return_value != NULL && VC_AO(__CPROVER_return_value) <= g_aoff && VC_AO(__CPROVER_return_value) + *newsize >= g_aoff + size &&
     g_aoff - VC_AO(__CPROVER_return_value) < VC_PS && VC_AO(__CPROVER_return_value) + *newsize - (g_aoff + size) < VC_PS));

bool _mi_os_commit_ex(void* addr, size_t size, bool* is_zero, size_t stat_size)
__CPROVER_requires(VC_PS_OK && g_area != NULL && addr == g_area + g_aoff && g_aoff >= VC_PS && g_aoff <= ((size_t)1 << 45) && size >= 1 && size <= ((size_t)1 << 45))
__CPROVER_requires((is_zero == NULL || __CPROVER_is_fresh(is_zero, 1)) && g_commit_n == 0)
__CPROVER_assigns(g_commit_n, g_commit_addr, g_commit_size; is_zero != NULL: *is_zero)
/* C07: failure is reported exactly when the OS refused; C13: the OS request covers the whole range */
__CPROVER_ensures(g_commit_n == 1 && __CPROVER_return_value == (g_prim_commit_err == 0))
__CPROVER_ensures(__CPROVER_same_object(g_commit_addr, g_area) && VC_AO(g_commit_addr) <= g_aoff && VC_AO(g_commit_addr) + g_commit_size >= g_aoff + size)
/* C04: zero is claimed only if the OS said the fresh pages are zero */
__CPROVER_ensures((is_zero != NULL && *is_zero) ==> (g_prim_commit_zero && g_prim_commit_err == 0));

bool _mi_os_purge_ex(void* p, size_t size, bool allow_reset, size_t stat_size)
__CPROVER_requires(VC_PS_OK && g_area != NULL && p == g_area + g_aoff && g_aoff >= VC_PS && g_aoff <= ((size_t)1 << 45) && size >= 1 && size <= ((size_t)1 << 45))
__CPROVER_requires(g_decommit_n == 0 && g_reset_n == 0)
__CPROVER_assigns(g_decommit_n, g_reset_n, g_purge_addr, g_purge_size)
/* C18: delay -1 disables purging altogether */
__CPROVER_ensures(g_opt[mi_option_purge_delay] < 0 ==> (g_decommit_n == 0 && g_reset_n == 0 && !__CPROVER_return_value))
/* decommit or reset by option, never both */
__CPROVER_ensures(g_decommit_n + g_reset_n <= 1)
__CPROVER_ensures((g_opt[mi_option_purge_delay] >= 0 && g_opt[mi_option_purge_decommits] != 0 && !g_preloading) ==> g_reset_n == 0)
__CPROVER_ensures((g_opt[mi_option_purge_delay] >= 0 && (g_opt[mi_option_purge_decommits] == 0 || g_preloading)) ==> (g_decommit_n == 0 && !__CPROVER_return_value && (!allow_reset ==> g_reset_n == 0)))
/* C13: whatever is purged lies inside [p, p+size) */
__CPROVER_ensures((g_decommit_n + g_reset_n == 1) ==> (__CPROVER_same_object(g_purge_addr, g_area) && VC_AO(g_purge_addr) >= g_aoff && VC_AO(g_purge_addr) + g_purge_size <= g_aoff + size))
/* a re-commit is demanded only after a decommit the OS confirmed as such */
__CPROVER_ensures(__CPROVER_return_value ==> (g_decommit_n == 1 ? g_prim_needs_recommit : (size < 2 * VC_PS)));
#endif
