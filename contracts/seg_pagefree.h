/* segment.c (SCALED): what happens to the segment when one of its pages is freed or abandoned (C09, C11).  The page is slice VC_SI of a
   harness-built segment header (the code finds the segment by masking the page address). */
#ifdef VC_CBMC
mi_segment_t* g_pseg; mi_page_t* g_ppage; size_t g_pu_after;        /* logical: segment->used after the page was cleared */
size_t g_clr_n; mi_page_t* g_clr_p; size_t g_sfree_n; bool g_sfree_force; size_t g_sab_n; size_t g_stp_n; bool g_stp_force;
static mi_slice_t* c_page_clear_rec(mi_page_t* page, mi_segments_tld_t* tld) __CPROVER_requires(page == g_ppage) __CPROVER_assigns(g_clr_n, g_clr_p, g_pseg->used)
__CPROVER_ensures(g_clr_n == __CPROVER_old(g_clr_n) + 1 && g_clr_p == page && g_pseg->used == g_pu_after);
static void c_segment_free_rec(mi_segment_t* segment, bool force, mi_segments_tld_t* tld) __CPROVER_requires(segment == g_pseg && segment->used == 0)   /* call-site obligation */
__CPROVER_assigns(g_sfree_n, g_sfree_force) __CPROVER_ensures(g_sfree_n == __CPROVER_old(g_sfree_n) + 1 && !g_sfree_force == !force);
static void c_segment_abandon_rec(mi_segment_t* segment, mi_segments_tld_t* tld) __CPROVER_requires(segment == g_pseg && segment->used == segment->abandoned && segment->used > 0)   /* call-site obligation */
__CPROVER_assigns(g_sab_n) __CPROVER_ensures(g_sab_n == __CPROVER_old(g_sab_n) + 1);
static void c_seg_try_purge_rec3(mi_segment_t* segment, bool force) __CPROVER_requires(segment == g_pseg) __CPROVER_assigns(g_stp_n, g_stp_force)
__CPROVER_ensures(g_stp_n == __CPROVER_old(g_stp_n) + 1 && !g_stp_force == !force);

void _mi_segment_page_free(mi_page_t* page, bool force, mi_segments_tld_t* tld)
__CPROVER_requires(page == g_ppage && g_clr_n == 0 && g_sfree_n == 0 && g_sab_n == 0 && g_stp_n == 0 && g_pseg->abandoned <= g_pu_after)
__CPROVER_assigns(g_clr_n, g_clr_p, g_pseg->used, g_sfree_n, g_sfree_force, g_sab_n, g_stp_n, g_stp_force)
__CPROVER_ensures(g_clr_n == 1 && g_clr_p == page)
/* C11: the last page => the segment itself is freed; C09: only abandoned pages left => the segment is abandoned (it can be adopted); otherwise it stays, with a non-forced purge */
__CPROVER_ensures(g_pu_after == 0 ==> (g_sfree_n == 1 && !g_sfree_force == !force && g_sab_n == 0 && g_stp_n == 0))
__CPROVER_ensures((g_pu_after != 0 && g_pu_after == g_pseg->abandoned) ==> (g_sab_n == 1 && g_sfree_n == 0 && g_stp_n == 0))
__CPROVER_ensures((g_pu_after != 0 && g_pu_after != g_pseg->abandoned) ==> (g_stp_n == 1 && !g_stp_force && g_sfree_n == 0 && g_sab_n == 0));

size_t g_ab0;
void _mi_segment_page_abandon(mi_page_t* page, mi_segments_tld_t* tld)
__CPROVER_requires(page == g_ppage && g_sab_n == 0 && g_pseg->abandoned == g_ab0 && g_ab0 < g_pseg->used && g_pseg->used <= MI_SLICES_PER_SEGMENT)
__CPROVER_assigns(g_pseg->abandoned, g_sab_n)
/* C09: one more abandoned page; the segment as a whole is abandoned exactly when this was its last page in use by the thread */
__CPROVER_ensures(g_pseg->abandoned == g_ab0 + 1 && g_sab_n == (g_ab0 + 1 == g_pseg->used ? 1 : 0));
#endif

#ifdef VC_CBMC
/* ---- clearing a page (all its blocks are free): the slice keeps its span fields, everything from `capacity` on is zeroed, the span goes back through
   mi_segment_span_free_coalesce exactly once and the segment counts one page less ---- */
size_t g_co_n; mi_slice_t* g_co_slice; size_t g_co_used_then; size_t g_co_bs_then; size_t g_pused0; uint32_t g_sc0, g_so0; uint8_t g_tag0;
static mi_slice_t* c_coalesce_rec(mi_slice_t* slice, mi_segments_tld_t* tld)
__CPROVER_requires(slice->slice_count >= 1 && slice->slice_offset == 0)            /* call-site obligation: a span head */
__CPROVER_assigns(g_co_n, g_co_slice, g_co_used_then, g_co_bs_then)
__CPROVER_ensures(g_co_n == __CPROVER_old(g_co_n) + 1 && g_co_slice == slice && g_co_used_then == g_pseg->used && g_co_bs_then == slice->block_size);
bool _mi_os_reset(void* addr, size_t size) __CPROVER_requires(1) __CPROVER_assigns() __CPROVER_ensures(1);
static mi_slice_t* mi_segment_page_clear(mi_page_t* page, mi_segments_tld_t* tld)
__CPROVER_requires(page == g_ppage && g_co_n == 0 && g_pseg->used == g_pused0 && g_pused0 >= 1 && !g_pseg->allow_decommit)
__CPROVER_requires(page->slice_count == g_sc0 && g_sc0 >= 1 && page->slice_offset == g_so0 && g_so0 == 0 && page->heap_tag == g_tag0 && __CPROVER_is_fresh(tld, sizeof(mi_segments_tld_t)) && __CPROVER_is_fresh(tld->stats, sizeof(mi_stats_t)))
__CPROVER_assigns(__CPROVER_object_whole(g_pseg), g_co_n, g_co_slice, g_co_used_then, g_co_bs_then)
__CPROVER_ensures(g_co_n == 1 && g_co_slice == (mi_slice_t*)page && g_co_bs_then == 1 && g_pseg->used == g_pused0 - 1)
__CPROVER_ensures(page->slice_count == g_sc0 && page->slice_offset == g_so0 && page->heap_tag == g_tag0)
__CPROVER_ensures(page->capacity == 0 && page->reserved == 0 && page->used == 0 && page->free == NULL && page->local_free == NULL && page->xthread_free == 0 && page->xheap == 0 &&
                  page->next == NULL && page->prev == NULL && !page->is_zero_init && page->block_size == 1 && page->flags.full_aligned == 0);
#endif

#ifdef VC_CBMC
/* ---- mi_segment_free: a segment without pages in use goes back exactly once (unless its memory must stay valid: dont_free); its free spans leave the span
   queues first.  The walk over span heads has a loop contract; every head has a positive count (segment well-formed), which is what makes the walk advance. ---- */
size_t g_sosf_n; mi_segment_t* g_sosf_p; size_t g_srm_n;
static void c_segment_os_free_rec(mi_segment_t* segment, mi_segments_tld_t* tld) __CPROVER_requires(1) __CPROVER_assigns(g_sosf_n, g_sosf_p)
__CPROVER_ensures(g_sosf_n == __CPROVER_old(g_sosf_n) + 1 && g_sosf_p == segment);
static void c_span_remove_rec2(mi_slice_t* slice, mi_segments_tld_t* tld) __CPROVER_requires(slice->block_size == 0 && slice->slice_count >= 1)   /* call-site obligation: a free span head */
__CPROVER_assigns(g_srm_n) __CPROVER_ensures(g_srm_n == __CPROVER_old(g_srm_n) + 1);
size_t g_fw2;       /* witness slice index used by the loop invariant's instance of "every span head has a positive count" */
static void mi_segment_free(mi_segment_t* segment, bool force, mi_segments_tld_t* tld)
__CPROVER_requires(segment == g_pseg && g_sosf_n == 0 && g_srm_n == 0 && segment->used == 0 && segment->slice_entries >= 1 && segment->slice_entries <= MI_SLICES_PER_SEGMENT)
__CPROVER_assigns(g_sosf_n, g_sosf_p, g_srm_n)
__CPROVER_ensures(segment->dont_free ? (g_sosf_n == 0 && g_srm_n == 0) : (g_sosf_n == 1 && g_sosf_p == segment))
__CPROVER_ensures(segment->kind == MI_SEGMENT_HUGE ==> g_srm_n == 0);
#endif

