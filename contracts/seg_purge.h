/* seg_purge.h -- commit / purge of segment ranges (C13, C18, C07): contracts on the real segment.c.
   Included AFTER src/segment.c.  SCALED configuration: 64 slices per segment, so a commit mask is ONE
   64-bit word (MI_COMMIT_MASK_FIELD_COUNT == 1); same source as the shipped build, different constant. */
#ifdef VC_CBMC
#if MI_COMMIT_MASK_FIELD_COUNT != 1
#error "seg_purge.h is written for the scaled configuration (one mask word)"
#endif

size_t g_pstart;          /* logical: byte offset of p inside the segment */
size_t g_w;               /* witness bit (commit chunk index) */
size_t g_cm0, g_pm0;      /* logical: commit / purge mask words before the call */
int64_t g_expire0;        /* logical: purge_expire before the call */

/* recorders */
size_t  g_os_purge_n;     uint8_t* g_os_purge_p;  size_t g_os_purge_size;  bool g_os_purge_ret;
size_t  g_os_commit_n;    uint8_t* g_os_commit_p; size_t g_os_commit_size; bool g_os_commit_ret;
size_t  g_seg_purge_n;    uint8_t* g_seg_purge_p; size_t g_seg_purge_size; bool g_seg_purge_w;   /* did some call cover chunk g_w? */
size_t  g_try_purge_n;    bool g_try_purge_force;

#define VC_CS            MI_COMMIT_SIZE
#define VC_BIT(m, b)     ((((m) >> (b)) & 1) != 0)
#define VC_CM(s)         ((s)->commit_mask.mask[0])
#define VC_PM(s)         ((s)->purge_mask.mask[0])
/* the header of a normal segment as mi_segment_alloc leaves it */
#define VC_SEG_OK(s) (__CPROVER_is_fresh(s, sizeof(mi_segment_t)) &&   /* header only: a 4 MiB object exhausts the solver */ \
   (s)->kind == MI_SEGMENT_NORMAL && \
   (s)->segment_slices == MI_SLICES_PER_SEGMENT && (s)->segment_info_slices >= 1 && (s)->segment_info_slices <= 3 && \
   (s)->slice_entries <= MI_SLICES_PER_SEGMENT && (VC_PM(s) & ~VC_CM(s)) == 0 && \
   VC_CM(s) == g_cm0 && VC_PM(s) == g_pm0 && (s)->purge_expire == g_expire0 && g_expire0 >= 0 && g_expire0 < ((int64_t)1 << 61))
/* p points at byte g_pstart of the segment, the range lies behind the info slices and inside the segment */
#define VC_RANGE_OK(s, p, size) ((p) == (uint8_t*)(s) + g_pstart && (size) >= 1 && (size) <= MI_SEGMENT_SIZE && \
   g_pstart >= (s)->segment_info_slices * MI_SEGMENT_SLICE_SIZE && g_pstart <= MI_SEGMENT_SIZE && (size) <= MI_SEGMENT_SIZE - g_pstart)
#define VC_OPT_SANE (g_opt[mi_option_purge_delay] >= -1 && g_opt[mi_option_purge_delay] <= (1L << 30) && \
   g_opt[mi_option_purge_extend_delay] >= 0 && g_opt[mi_option_purge_extend_delay] <= (1L << 30) && g_now >= 0 && g_now < ((int64_t)1 << 61))
/* chunk b lies completely inside / touches the byte range */
#define VC_INNER(b, lo, size) ((b) * VC_CS >= (lo) && ((b) + 1) * VC_CS <= (lo) + (size))
#define VC_TOUCH(b, lo, size) (((b) + 1) * VC_CS > (lo) && (b) * VC_CS < (lo) + (size))

/* ---- trusted OS layer below segment.c (contracts enforced on os.c separately, C13) ---- */
bool _mi_os_purge(void* p, size_t size)
__CPROVER_requires(1)
__CPROVER_assigns(g_os_purge_n, g_os_purge_p, g_os_purge_size, g_os_purge_ret)
__CPROVER_ensures(g_os_purge_n == __CPROVER_old(g_os_purge_n) + 1 && g_os_purge_p == p && g_os_purge_size == size && g_os_purge_ret == __CPROVER_return_value);

bool _mi_os_commit(void* p, size_t size, bool* is_zero)
__CPROVER_requires(is_zero == NULL || __CPROVER_w_ok(is_zero, 1))
__CPROVER_assigns(g_os_commit_n, g_os_commit_p, g_os_commit_size, g_os_commit_ret; is_zero != NULL: *is_zero)
__CPROVER_ensures(g_os_commit_n == __CPROVER_old(g_os_commit_n) + 1 && g_os_commit_p == p && g_os_commit_size == size && g_os_commit_ret == __CPROVER_return_value);

/* ---- mask of a byte range: conservative (inner) for purge, liberal (outer) for commit ---- */
static void mi_segment_commit_mask(mi_segment_t* segment, bool conservative, uint8_t* p, size_t size, uint8_t** start_p, size_t* full_size, mi_commit_mask_t* cm)
__CPROVER_requires(VC_SEG_OK(segment) && VC_RANGE_OK(segment, p, size) && g_w < 64)
__CPROVER_requires(__CPROVER_is_fresh(start_p, sizeof(*start_p)) && __CPROVER_is_fresh(full_size, sizeof(size_t)) && __CPROVER_is_fresh(cm, sizeof(*cm)))
__CPROVER_requires(*full_size == 0)     /* callers initialise it */
__CPROVER_assigns(*start_p, *full_size, *cm)
/* the mask is exactly the chunks of [start, start+full_size) */
__CPROVER_ensures(cm->mask[0] != 0 ==> (__CPROVER_same_object(*start_p, segment) && (__CPROVER_POINTER_OFFSET(*start_p) % VC_CS) == 0 && (*full_size % VC_CS) == 0))
__CPROVER_ensures(cm->mask[0] != 0 ==> (VC_BIT(cm->mask[0], g_w) == VC_INNER(g_w, __CPROVER_POINTER_OFFSET(*start_p), *full_size)))
/* conservative: only chunks completely inside the range -- nothing outside [p, p+size) is ever purged */
__CPROVER_ensures(conservative ==> (VC_BIT(cm->mask[0], g_w) == VC_INNER(g_w, g_pstart, size)))
/* liberal: every chunk the range touches -- everything in [p, p+size) gets committed */
__CPROVER_ensures(!conservative ==> (VC_BIT(cm->mask[0], g_w) == VC_TOUCH(g_w, g_pstart, size)))
__CPROVER_ensures(cm->mask[0] == 0 || *full_size > 0);

/* ---- purge now ---- */
static bool mi_segment_purge(mi_segment_t* segment, uint8_t* p, size_t size)
__CPROVER_requires(VC_SEG_OK(segment) && VC_RANGE_OK(segment, p, size) && g_w < 64 && g_os_purge_n == 0)
__CPROVER_assigns(segment->commit_mask, segment->purge_mask, g_os_purge_n, g_os_purge_p, g_os_purge_size, g_os_purge_ret)
/* the OS is asked to purge at most once, and only bytes inside [p, p+size) */
__CPROVER_ensures(g_os_purge_n <= 1)
__CPROVER_ensures(g_os_purge_n == 1 ==> (__CPROVER_same_object(g_os_purge_p, segment) && __CPROVER_POINTER_OFFSET(g_os_purge_p) >= g_pstart &&
                   __CPROVER_POINTER_OFFSET(g_os_purge_p) + g_os_purge_size <= g_pstart + size))
/* purging is not skipped: a committed chunk inside the range reaches the OS when purging is allowed */
__CPROVER_ensures((segment->allow_purge && VC_INNER(g_w, g_pstart, size) && VC_BIT(g_cm0, g_w)) ==>
                  (g_os_purge_n == 1 && __CPROVER_POINTER_OFFSET(g_os_purge_p) <= g_w * VC_CS && (g_w + 1) * VC_CS <= __CPROVER_POINTER_OFFSET(g_os_purge_p) + g_os_purge_size))
/* commit bits: cleared exactly for the inner chunks, and only if the OS says the memory needs a re-commit */
__CPROVER_ensures(VC_BIT(VC_CM(segment), g_w) == (VC_BIT(g_cm0, g_w) && !(segment->allow_purge && g_os_purge_n == 1 && g_os_purge_ret && VC_INNER(g_w, g_pstart, size))))
/* pending purges: cleared exactly for the inner chunks */
__CPROVER_ensures(VC_BIT(VC_PM(segment), g_w) == (VC_BIT(g_pm0, g_w) && !(segment->allow_purge && VC_INNER(g_w, g_pstart, size))))
__CPROVER_ensures((VC_PM(segment) & ~VC_CM(segment)) == 0);

/* ---- recorder contracts used when the CALLERS of mi_segment_purge / mi_segment_try_purge are verified.
   Their non-ghost part (masks only lose bits) is implied by the enforced contracts above/below. ---- */
static bool c_seg_purge_rec(mi_segment_t* segment, uint8_t* p, size_t size)
__CPROVER_requires(__CPROVER_same_object(p, segment) && size >= 1 && __CPROVER_POINTER_OFFSET(p) + size <= MI_SEGMENT_SIZE)
__CPROVER_assigns(segment->commit_mask, segment->purge_mask, g_seg_purge_n, g_seg_purge_p, g_seg_purge_size, g_seg_purge_w)
__CPROVER_ensures(g_seg_purge_n == __CPROVER_old(g_seg_purge_n) + 1 && g_seg_purge_p == p && g_seg_purge_size == size)
__CPROVER_ensures(g_seg_purge_w == (__CPROVER_old(g_seg_purge_w) || VC_TOUCH(g_w, __CPROVER_POINTER_OFFSET(p), size)))
__CPROVER_ensures((VC_CM(segment) & ~__CPROVER_old(VC_CM(segment))) == 0 && (VC_PM(segment) & ~__CPROVER_old(VC_PM(segment))) == 0)
__CPROVER_ensures((VC_PM(segment) & ~VC_CM(segment)) == 0);

static void c_seg_try_purge_rec(mi_segment_t* segment, bool force)
__CPROVER_requires(1)
__CPROVER_assigns(segment->commit_mask, segment->purge_mask, segment->purge_expire, g_try_purge_n, g_try_purge_force)
__CPROVER_ensures(g_try_purge_n == __CPROVER_old(g_try_purge_n) + 1 && g_try_purge_force == force)
__CPROVER_ensures((VC_CM(segment) & ~__CPROVER_old(VC_CM(segment))) == 0 && (VC_PM(segment) & ~__CPROVER_old(VC_PM(segment))) == 0)
__CPROVER_ensures(force ==> (VC_PM(segment) == 0 && segment->purge_expire == 0));

/* ---- schedule a purge when a span is freed ---- */
#define VC_DELAY   (g_opt[mi_option_purge_delay])
#define VC_EXTEND  (g_opt[mi_option_purge_extend_delay])
static void mi_segment_schedule_purge(mi_segment_t* segment, uint8_t* p, size_t size)
__CPROVER_requires(VC_SEG_OK(segment) && VC_RANGE_OK(segment, p, size) && VC_OPT_SANE && g_w < 64)
__CPROVER_requires(g_seg_purge_n == 0 && g_try_purge_n == 0 && !g_seg_purge_w)
__CPROVER_requires(g_pm0 != 0 ==> g_expire0 > 0)       /* pending purges always carry an expiration */
__CPROVER_assigns(segment->commit_mask, segment->purge_mask, segment->purge_expire,
                  g_seg_purge_n, g_seg_purge_p, g_seg_purge_size, g_seg_purge_w, g_try_purge_n, g_try_purge_force)
/* purging disabled for this segment: nothing happens */
__CPROVER_ensures(!segment->allow_purge ==> (g_seg_purge_n == 0 && g_try_purge_n == 0 && VC_PM(segment) == g_pm0 && VC_CM(segment) == g_cm0 && segment->purge_expire == g_expire0))
/* delay 0: purged immediately, exactly the freed range */
__CPROVER_ensures((segment->allow_purge && VC_DELAY == 0) ==> (g_seg_purge_n == 1 && g_seg_purge_p == p && g_seg_purge_size == size && g_try_purge_n == 0))
/* delay > 0: nothing is purged now unless the previous deadline (plus extension) has already passed */
__CPROVER_ensures((segment->allow_purge && VC_DELAY > 0) ==> g_seg_purge_n == 0)
__CPROVER_ensures((segment->allow_purge && VC_DELAY > 0 && g_try_purge_n == 1) ==> (g_try_purge_force && g_expire0 != 0 && g_expire0 + VC_EXTEND <= g_now))
/* ... every committed chunk inside the freed range becomes pending, earlier pending chunks stay pending, nothing else does */
__CPROVER_ensures((segment->allow_purge && VC_DELAY > 0 && g_try_purge_n == 0) ==>
    (VC_BIT(VC_PM(segment), g_w) == (VC_BIT(g_pm0, g_w) || (VC_INNER(g_w, g_pstart, size) && VC_BIT(g_cm0, g_w)))))
/* ... and whatever is pending has a deadline that is at most delay+extension past max(now, previous deadline) */
__CPROVER_ensures((segment->allow_purge && VC_DELAY > 0 && g_try_purge_n == 0 && VC_PM(segment) != 0) ==>
    (segment->purge_expire > 0 && segment->purge_expire <= (g_expire0 > g_now ? g_expire0 : g_now) + VC_DELAY + VC_EXTEND))
__CPROVER_ensures((VC_PM(segment) & ~VC_CM(segment)) == 0);

/* ---- next run of set bits in a mask word, from *idx on ---- */
size_t g_idx0;
size_t _mi_commit_mask_next_run(const mi_commit_mask_t* cm, size_t* idx)
__CPROVER_requires(__CPROVER_is_fresh(cm, sizeof(*cm)) && __CPROVER_is_fresh(idx, sizeof(size_t)) && *idx == g_idx0 && g_idx0 <= 64 && g_w < 64)
__CPROVER_assigns(*idx)
__CPROVER_ensures(__CPROVER_return_value == 0 ==> (*idx == 64 && (g_w >= g_idx0 ==> !VC_BIT(cm->mask[0], g_w))))
__CPROVER_ensures(__CPROVER_return_value > 0 ==> (*idx >= g_idx0 && *idx < 64 && __CPROVER_return_value <= 64 - *idx))
__CPROVER_ensures((__CPROVER_return_value > 0 && g_w >= g_idx0 && g_w < *idx) ==> !VC_BIT(cm->mask[0], g_w))
__CPROVER_ensures((__CPROVER_return_value > 0 && g_w >= *idx && g_w < *idx + __CPROVER_return_value) ==> VC_BIT(cm->mask[0], g_w))
__CPROVER_ensures((__CPROVER_return_value > 0 && *idx + __CPROVER_return_value < 64) ==> !VC_BIT(cm->mask[0], *idx + __CPROVER_return_value));

/* the same facts as seen by a caller (idx is a caller local, cm any readable mask) */
size_t c_next_run_use(const mi_commit_mask_t* cm, size_t* idx)
__CPROVER_requires(__CPROVER_r_ok(cm, sizeof(*cm)) && __CPROVER_w_ok(idx, sizeof(size_t)) && *idx <= 64)
__CPROVER_assigns(*idx)
__CPROVER_ensures(__CPROVER_return_value == 0 ==> (*idx == 64 && (g_w >= __CPROVER_old(*idx) ==> !VC_BIT(cm->mask[0], g_w))))
__CPROVER_ensures(__CPROVER_return_value > 0 ==> (*idx >= __CPROVER_old(*idx) && *idx < 64 && __CPROVER_return_value <= 64 - *idx))
__CPROVER_ensures((__CPROVER_return_value > 0 && g_w >= __CPROVER_old(*idx) && g_w < *idx) ==> !VC_BIT(cm->mask[0], g_w))
__CPROVER_ensures((__CPROVER_return_value > 0 && g_w >= *idx && g_w < *idx + __CPROVER_return_value) ==> VC_BIT(cm->mask[0], g_w));

/* ---- purge what is due ---- */
#define VC_DUE(s, force) ((s)->allow_purge && g_expire0 != 0 && g_pm0 != 0 && ((force) || g_now >= g_expire0))
static void mi_segment_try_purge(mi_segment_t* segment, bool force)
__CPROVER_requires(VC_SEG_OK(segment) && VC_OPT_SANE && g_w < 64)
__CPROVER_requires(g_seg_purge_n == 0 && !g_seg_purge_w)
__CPROVER_requires((g_pm0 & (((size_t)1 << segment->segment_info_slices) - 1)) == 0)   /* the info slices are never pending */
__CPROVER_assigns(segment->commit_mask, segment->purge_mask, segment->purge_expire, g_seg_purge_n, g_seg_purge_p, g_seg_purge_size, g_seg_purge_w)
/* expired (or forced): every pending chunk is handed to the purge, nothing stays pending -- no forced collect needed */
__CPROVER_ensures(VC_DUE(segment, force) ==> (VC_PM(segment) == 0 && segment->purge_expire == 0))
__CPROVER_ensures((VC_DUE(segment, force) && VC_BIT(g_pm0, g_w)) ==> g_seg_purge_w)
/* chunks that were not pending are never purged */
__CPROVER_ensures(!VC_BIT(g_pm0, g_w) ==> !g_seg_purge_w)
/* not yet due: nothing happens */
__CPROVER_ensures(!VC_DUE(segment, force) ==> (g_seg_purge_n == 0 && VC_PM(segment) == g_pm0 && VC_CM(segment) == g_cm0 && segment->purge_expire == g_expire0));
#endif

#ifdef VC_CBMC
/* ================= commit on demand (C07, C13) ================= */
static bool mi_segment_commit(mi_segment_t* segment, uint8_t* p, size_t size)
__CPROVER_requires(VC_SEG_OK(segment) && VC_RANGE_OK(segment, p, size) && VC_OPT_SANE && g_w < 64 && g_os_commit_n == 0)
__CPROVER_assigns(segment->commit_mask, segment->purge_mask, segment->purge_expire, g_os_commit_n, g_os_commit_p, g_os_commit_size, g_os_commit_ret)
/* the OS is asked at most once, and exactly when some chunk the range touches is not committed yet; the request covers the range */
__CPROVER_ensures(g_os_commit_n <= 1)
__CPROVER_ensures((VC_TOUCH(g_w, g_pstart, size) && !VC_BIT(g_cm0, g_w)) ==> (g_os_commit_n == 1 && __CPROVER_same_object(g_os_commit_p, segment) &&
                   __CPROVER_POINTER_OFFSET(g_os_commit_p) <= g_w * VC_CS && (g_w + 1) * VC_CS <= __CPROVER_POINTER_OFFSET(g_os_commit_p) + g_os_commit_size))
__CPROVER_ensures(g_os_commit_n == 1 ==> (__CPROVER_POINTER_OFFSET(g_os_commit_p) <= g_pstart && g_pstart + size <= __CPROVER_POINTER_OFFSET(g_os_commit_p) + g_os_commit_size))
/* C07: a refused commit is reported and leaves every mask as it was -- nothing is recorded as committed that is not */
__CPROVER_ensures(!__CPROVER_return_value ==> (g_os_commit_n == 1 && !g_os_commit_ret && VC_CM(segment) == g_cm0 && VC_PM(segment) == g_pm0 && segment->purge_expire == g_expire0))
__CPROVER_ensures(__CPROVER_return_value ==> (g_os_commit_n == 0 || g_os_commit_ret))
/* success: every chunk the range touches is committed, no other commit bit changes */
__CPROVER_ensures(__CPROVER_return_value ==> (VC_BIT(VC_CM(segment), g_w) == (VC_BIT(g_cm0, g_w) || VC_TOUCH(g_w, g_pstart, size))))
/* C13: success: no chunk the range touches stays scheduled for a purge (it is about to hold live data); other pending chunks stay */
__CPROVER_ensures(__CPROVER_return_value ==> (VC_BIT(VC_PM(segment), g_w) == (VC_BIT(g_pm0, g_w) && !VC_TOUCH(g_w, g_pstart, size))))
__CPROVER_ensures((VC_PM(segment) & ~VC_CM(segment)) == 0);

size_t g_seg_commit_n; uint8_t* g_seg_commit_p; size_t g_seg_commit_size; bool g_seg_commit_ret;
static bool c_seg_commit_rec(mi_segment_t* segment, uint8_t* p, size_t size)
__CPROVER_requires(1) __CPROVER_assigns(g_seg_commit_n, g_seg_commit_p, g_seg_commit_size, segment->commit_mask, segment->purge_mask, segment->purge_expire)
__CPROVER_ensures(g_seg_commit_n == __CPROVER_old(g_seg_commit_n) + 1 && g_seg_commit_p == p && g_seg_commit_size == size && __CPROVER_return_value == g_seg_commit_ret);

/* true => the range is committed: either the whole segment is (full mask, nothing pending) or the on-demand commit succeeded */
static bool mi_segment_ensure_committed(mi_segment_t* segment, uint8_t* p, size_t size)
__CPROVER_requires(VC_SEG_OK(segment) && VC_RANGE_OK(segment, p, size) && g_seg_commit_n == 0)
__CPROVER_assigns(g_seg_commit_n, g_seg_commit_p, g_seg_commit_size, segment->commit_mask, segment->purge_mask, segment->purge_expire)
__CPROVER_ensures((g_cm0 == ~(size_t)0 && g_pm0 == 0) ==> (__CPROVER_return_value && g_seg_commit_n == 0))
__CPROVER_ensures(!(g_cm0 == ~(size_t)0 && g_pm0 == 0) ==> (g_seg_commit_n == 1 && g_seg_commit_p == p && g_seg_commit_size == size && __CPROVER_return_value == g_seg_commit_ret));
#endif
