/* page_alloc.h -- pop from / push on the page free lists (C01, C04): contracts on the real alloc.c + free.c.
   Included AFTER src/alloc.c.  Blocks are separate objects of the page's block size (pointer-following operations: unbounded capacity). */
#ifdef VC_CBMC
size_t g_bs;                 /* block size of the page */
size_t g_k;                  /* witness byte inside a block */
mi_block_t* g_next;          /* logical: second block of the free list (NULL if the list has one element) */
mi_block_t* g_lf0;           /* logical: head of the local free list before the call */
uint16_t g_used0;
size_t g_generic_n; size_t g_retire_n, g_unfull_n;
void* _mi_malloc_generic(mi_heap_t* heap, size_t size, bool zero, size_t huge_alignment)
__CPROVER_requires(1) __CPROVER_assigns(g_generic_n) __CPROVER_ensures(g_generic_n == __CPROVER_old(g_generic_n) + 1);
void _mi_page_retire(mi_page_t* page) __CPROVER_requires(1) __CPROVER_assigns(g_retire_n) __CPROVER_ensures(g_retire_n == __CPROVER_old(g_retire_n) + 1);
void _mi_page_unfull(mi_page_t* page) __CPROVER_requires(1) __CPROVER_assigns(g_unfull_n) __CPROVER_ensures(g_unfull_n == __CPROVER_old(g_unfull_n) + 1);
#define VC_OFF(p) __CPROVER_POINTER_OFFSET(p)
static inline void _mi_memzero_aligned(void* dst, size_t n)
__CPROVER_requires(n == 0 || __CPROVER_w_ok(dst, n))
__CPROVER_assigns(n > 0: __CPROVER_object_whole(dst))
__CPROVER_ensures((n > 0 && g_k >= VC_OFF(dst) && g_k - VC_OFF(dst) < n) ==> *((uint8_t*)dst - VC_OFF(dst) + g_k) == 0);

/* ---- allocation: pop the head of the page's free list ---- */
void* _mi_page_malloc_zero(mi_heap_t* heap, mi_page_t* page, size_t size, bool zero)
__CPROVER_requires(__CPROVER_is_fresh(page, sizeof(mi_page_t)) && g_bs >= 8 && g_bs <= ((size_t)1 << 25) && page->block_size == g_bs && size <= g_bs && g_k < g_bs)
__CPROVER_requires(page->used == g_used0 && g_used0 < page->capacity && !page->is_huge)
/* PWF instance at the head: the head is a block of this page; its link is the second element (or NULL) */
__CPROVER_requires(page->free == NULL || (__CPROVER_is_fresh(page->free, g_bs) && (g_next == NULL || __CPROVER_is_fresh(g_next, g_bs)) && page->free->next == (mi_encoded_t)g_next))
/* PWF, free_is_zero conjunct: behind the link word a block on a zero list is zero */
__CPROVER_requires((page->free != NULL && page->free_is_zero && g_k >= sizeof(mi_block_t)) ==> ((uint8_t*)page->free)[g_k] == 0)
__CPROVER_requires(g_generic_n == 0)
__CPROVER_assigns(g_generic_n; page->free != NULL: page->free, page->used, __CPROVER_object_whole(page->free))
/* empty list: the generic path is entered, the page is not touched */
__CPROVER_ensures(__CPROVER_old(page->free) == NULL ==> (g_generic_n == 1 && page->used == g_used0))
/* otherwise: the block handed out is the old head (FREE before, not on the free list afterwards), the list advances, used+1 */
__CPROVER_ensures(__CPROVER_old(page->free) != NULL ==> (__CPROVER_return_value == __CPROVER_old(page->free) && page->free == g_next && page->used == g_used0 + 1 && g_generic_n == 0))
/* C04: a zero-initialising allocation returns a block whose whole block size reads as zero */
__CPROVER_ensures((__CPROVER_old(page->free) != NULL && zero) ==> ((uint8_t*)__CPROVER_return_value)[g_k] == 0);

/* ---- free of a block of the owning thread: push on the local free list ---- */
static inline void mi_free_block_local(mi_page_t* page, mi_block_t* block, bool track_stats, bool check_full)
__CPROVER_requires(__CPROVER_is_fresh(page, sizeof(mi_page_t)) && g_bs >= 8 && g_bs <= ((size_t)1 << 25) && page->block_size == g_bs && __CPROVER_is_fresh(block, g_bs))
__CPROVER_requires(page->used == g_used0 && g_used0 >= 1 && page->local_free == g_lf0 && g_retire_n == 0 && g_unfull_n == 0)
__CPROVER_assigns(page->local_free, page->used, block->next, g_retire_n, g_unfull_n)       /* frame: only the link word of the freed block and two header fields */
/* the block becomes the head of the local free list, linked to the old head; used-1 */
__CPROVER_ensures(page->local_free == block && block->next == (mi_encoded_t)g_lf0 && page->used == g_used0 - 1)
/* last block freed => the page is retired; a full page that got room again leaves the full queue */
__CPROVER_ensures(g_retire_n == (g_used0 == 1 ? 1 : 0))
__CPROVER_ensures(g_unfull_n == ((g_used0 != 1 && check_full && page->flags.x.in_full) ? 1 : 0));

/* ---- the two page flags share a byte: changing one never changes the other ---- */
static inline void mi_page_set_in_full(mi_page_t* page, bool in_full)
__CPROVER_requires(__CPROVER_is_fresh(page, sizeof(mi_page_t)))
__CPROVER_assigns(page->flags)
__CPROVER_ensures(!page->flags.x.in_full == !in_full && page->flags.x.has_aligned == __CPROVER_old(page->flags.x.has_aligned));
static inline void mi_page_set_has_aligned(mi_page_t* page, bool has_aligned)
__CPROVER_requires(__CPROVER_is_fresh(page, sizeof(mi_page_t)))
__CPROVER_assigns(page->flags)
__CPROVER_ensures(!page->flags.x.has_aligned == !has_aligned && page->flags.x.in_full == __CPROVER_old(page->flags.x.in_full));
#endif
