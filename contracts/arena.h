/* arena.h -- contracts on the real arena.c (C07, C11, C13, C14, C15, C18). Included AFTER src/arena.c.
   The bitmaps are abstracted by recorder contracts of the bitmap.c functions (their own obligations are C14): which bitmap,
   which operation, which range; results are logical variables. */
#ifdef VC_CBMC
#define VC_NF 3                                   /* fields of the modelled bitmaps (192 arena blocks) */
mi_bitmap_field_t* g_bm_inuse; mi_bitmap_field_t* g_bm_dirty; mi_bitmap_field_t* g_bm_committed; mi_bitmap_field_t* g_bm_purge;
uint8_t* g_start;                                  /* start of the arena's memory area */
/* logical results of the bitmap queries */
bool   g_claim_ok;  size_t g_claim_idx;            /* find-and-claim in blocks_inuse */
bool   g_dirty_allzero;
bool   g_cm_allzero, g_cm_anyzero; size_t g_cm_already;     /* claim in blocks_committed */
bool   g_cm_isclaimed;                                      /* is_claimed in blocks_committed */
bool   g_inuse_allset;                                      /* unclaim in blocks_inuse: were all set? */
bool   g_commit_ok, g_commit_zero;
/* recorders: per bitmap, number of claim / unclaim operations and the last range */
size_t g_inuse_claim_n, g_inuse_unclaim_n, g_purge_claim_n, g_purge_unclaim_n, g_dirty_claim_n, g_cm_claim_n, g_cm_unclaim_n, g_cm_query_n;
size_t g_last_idx, g_last_count;                   /* range of the most recent bitmap operation */
size_t g_purge_idx, g_purge_count, g_cmu_idx, g_cmu_count, g_inu_idx, g_inu_count;
size_t g_commit_n; void* g_commit_p; size_t g_commit_size;
size_t g_ospurge_n; void* g_ospurge_p; size_t g_ospurge_size; bool g_ospurge_allow_reset; bool g_ospurge_ret;
size_t g_osfree_n; void* g_osfree_p; size_t g_osfree_size;
size_t g_sched_n, g_sched_idx, g_sched_count;
size_t g_arenas_try_purge_n;
size_t g_apurge_n, g_apurge_idx, g_apurge_count;

#define VC_BM_ASSIGNS g_inuse_claim_n, g_inuse_unclaim_n, g_purge_claim_n, g_purge_unclaim_n, g_dirty_claim_n, g_cm_claim_n, g_cm_unclaim_n, g_cm_query_n, \
                      g_last_idx, g_last_count, g_purge_idx, g_purge_count, g_cmu_idx, g_cmu_count, g_inu_idx, g_inu_count

bool _mi_bitmap_try_find_from_claim_across(mi_bitmap_t bitmap, const size_t bitmap_fields, const size_t start_field_idx, const size_t count, mi_bitmap_index_t* bitmap_idx)
__CPROVER_requires(bitmap == g_bm_inuse && __CPROVER_w_ok(bitmap_idx, sizeof(*bitmap_idx)))
__CPROVER_assigns(*bitmap_idx, g_inuse_claim_n, g_last_idx, g_last_count)
__CPROVER_ensures(__CPROVER_return_value == g_claim_ok)
__CPROVER_ensures(g_claim_ok ==> (*bitmap_idx == g_claim_idx && g_inuse_claim_n == __CPROVER_old(g_inuse_claim_n) + 1 && g_last_idx == g_claim_idx && g_last_count == count))
__CPROVER_ensures(!g_claim_ok ==> g_inuse_claim_n == __CPROVER_old(g_inuse_claim_n));

bool _mi_bitmap_claim_across(mi_bitmap_t bitmap, size_t bitmap_fields, size_t count, mi_bitmap_index_t bitmap_idx, bool* pany_zero, size_t* already_set)
__CPROVER_requires(bitmap == g_bm_dirty || bitmap == g_bm_committed || bitmap == g_bm_purge)
__CPROVER_requires((pany_zero == NULL || __CPROVER_w_ok(pany_zero, 1)) && (already_set == NULL || __CPROVER_w_ok(already_set, sizeof(size_t))))
__CPROVER_assigns(g_last_idx, g_last_count; bitmap == g_bm_dirty: g_dirty_claim_n; bitmap == g_bm_committed: g_cm_claim_n; bitmap == g_bm_purge: g_purge_claim_n, g_purge_idx, g_purge_count;
                  pany_zero != NULL: *pany_zero; already_set != NULL: *already_set)
__CPROVER_ensures(g_last_idx == bitmap_idx && g_last_count == count)
__CPROVER_ensures(bitmap == g_bm_dirty ==> (g_dirty_claim_n == __CPROVER_old(g_dirty_claim_n) + 1 && __CPROVER_return_value == g_dirty_allzero))
__CPROVER_ensures(bitmap == g_bm_committed ==> (g_cm_claim_n == __CPROVER_old(g_cm_claim_n) + 1 && __CPROVER_return_value == g_cm_allzero &&
                  (pany_zero == NULL || *pany_zero == g_cm_anyzero) && (already_set == NULL || *already_set == g_cm_already)))
__CPROVER_ensures(bitmap == g_bm_purge ==> (g_purge_claim_n == __CPROVER_old(g_purge_claim_n) + 1 && g_purge_idx == bitmap_idx && g_purge_count == count));

bool _mi_bitmap_unclaim_across(mi_bitmap_t bitmap, size_t bitmap_fields, size_t count, mi_bitmap_index_t bitmap_idx)
__CPROVER_requires(bitmap == g_bm_inuse || bitmap == g_bm_committed || bitmap == g_bm_purge)
__CPROVER_assigns(g_last_idx, g_last_count; bitmap == g_bm_inuse: g_inuse_unclaim_n, g_inu_idx, g_inu_count; bitmap == g_bm_committed: g_cm_unclaim_n, g_cmu_idx, g_cmu_count;
                  bitmap == g_bm_purge: g_purge_unclaim_n, g_purge_idx, g_purge_count)
__CPROVER_ensures(g_last_idx == bitmap_idx && g_last_count == count)
__CPROVER_ensures(bitmap == g_bm_inuse ==> (g_inuse_unclaim_n == __CPROVER_old(g_inuse_unclaim_n) + 1 && g_inu_idx == bitmap_idx && g_inu_count == count && __CPROVER_return_value == g_inuse_allset))
__CPROVER_ensures(bitmap == g_bm_committed ==> (g_cm_unclaim_n == __CPROVER_old(g_cm_unclaim_n) + 1 && g_cmu_idx == bitmap_idx && g_cmu_count == count))
__CPROVER_ensures(bitmap == g_bm_purge ==> (g_purge_unclaim_n == __CPROVER_old(g_purge_unclaim_n) + 1 && g_purge_idx == bitmap_idx && g_purge_count == count));

bool _mi_bitmap_is_claimed_across(mi_bitmap_t bitmap, size_t bitmap_fields, size_t count, mi_bitmap_index_t bitmap_idx, size_t* already_set)
__CPROVER_requires(bitmap == g_bm_committed && (already_set == NULL || __CPROVER_w_ok(already_set, sizeof(size_t))))
__CPROVER_assigns(g_cm_query_n, g_last_idx, g_last_count; already_set != NULL: *already_set)
__CPROVER_ensures(g_cm_query_n == __CPROVER_old(g_cm_query_n) + 1 && g_last_idx == bitmap_idx && g_last_count == count)
__CPROVER_ensures(__CPROVER_return_value == g_cm_isclaimed && (already_set == NULL || *already_set == g_cm_already));

bool _mi_os_commit_ex(void* addr, size_t size, bool* is_zero, size_t stat_size)
__CPROVER_requires(is_zero == NULL || __CPROVER_w_ok(is_zero, 1))
__CPROVER_assigns(g_commit_n, g_commit_p, g_commit_size; is_zero != NULL: *is_zero)
__CPROVER_ensures(g_commit_n == __CPROVER_old(g_commit_n) + 1 && g_commit_p == addr && g_commit_size == size && __CPROVER_return_value == g_commit_ok && (is_zero == NULL || *is_zero == g_commit_zero));
bool _mi_os_purge(void* p, size_t size)
__CPROVER_requires(1) __CPROVER_assigns(g_ospurge_n, g_ospurge_p, g_ospurge_size, g_ospurge_allow_reset)
__CPROVER_ensures(g_ospurge_n == __CPROVER_old(g_ospurge_n) + 1 && g_ospurge_p == p && g_ospurge_size == size && g_ospurge_allow_reset && __CPROVER_return_value == g_ospurge_ret);
bool _mi_os_purge_ex(void* p, size_t size, bool allow_reset, size_t stat_size)
__CPROVER_requires(1) __CPROVER_assigns(g_ospurge_n, g_ospurge_p, g_ospurge_size, g_ospurge_allow_reset)
__CPROVER_ensures(g_ospurge_n == __CPROVER_old(g_ospurge_n) + 1 && g_ospurge_p == p && g_ospurge_size == size && !g_ospurge_allow_reset == !allow_reset && __CPROVER_return_value == g_ospurge_ret);
void _mi_os_free(void* p, size_t size, mi_memid_t memid)
__CPROVER_requires(1) __CPROVER_assigns(g_osfree_n, g_osfree_p, g_osfree_size)
__CPROVER_ensures(g_osfree_n == __CPROVER_old(g_osfree_n) + 1 && g_osfree_p == p && g_osfree_size == size);

/* the arena descriptor as mi_manage_os_memory_ex2 leaves it */
#define VC_ARENA_OK(a) (__CPROVER_is_fresh(a, sizeof(mi_arena_t) + 64) && (a)->field_count >= 1 && (a)->field_count <= VC_NF && \
   (a)->block_count <= (a)->field_count * MI_BITMAP_FIELD_BITS && (a)->block_count > ((a)->field_count - 1) * MI_BITMAP_FIELD_BITS && \
   __CPROVER_is_fresh(g_bm_dirty, 8 * VC_NF) && __CPROVER_is_fresh(g_bm_committed, 8 * VC_NF) && __CPROVER_is_fresh(g_bm_purge, 8 * VC_NF) && \
   g_bm_inuse == (a)->blocks_inuse && ((a)->blocks_dirty == NULL || (a)->blocks_dirty == g_bm_dirty) && \
   ((a)->memid.is_pinned ? ((a)->blocks_committed == NULL && (a)->blocks_purge == NULL) : ((a)->blocks_committed == g_bm_committed && (a)->blocks_purge == g_bm_purge)) && \
   __CPROVER_is_fresh(g_start, 1) && (a)->start == g_start && (a)->id >= 1 && (a)->id <= MI_MAX_ARENAS)
#define VC_REC_ZERO (g_inuse_claim_n == 0 && g_inuse_unclaim_n == 0 && g_purge_claim_n == 0 && g_purge_unclaim_n == 0 && g_dirty_claim_n == 0 && g_cm_claim_n == 0 && \
   g_cm_unclaim_n == 0 && g_cm_query_n == 0 && g_commit_n == 0 && g_ospurge_n == 0 && g_osfree_n == 0 && g_sched_n == 0 && g_arenas_try_purge_n == 0 && g_apurge_n == 0)
#define VC_BLK MI_ARENA_BLOCK_SIZE

/* ---- allocate a range of blocks in one arena ---- */
static void* mi_arena_try_alloc_at(mi_arena_t* arena, size_t arena_index, size_t needed_bcount, bool commit, mi_memid_t* memid)
__CPROVER_requires(VC_ARENA_OK(arena) && VC_REC_ZERO && __CPROVER_is_fresh(memid, sizeof(mi_memid_t)))
__CPROVER_requires(needed_bcount >= 1 && needed_bcount <= arena->block_count)
/* what the bitmap layer guarantees (C14): a successful claim lies inside the arena's blocks; query results are consistent */
__CPROVER_requires(g_claim_ok ==> (g_claim_idx <= arena->block_count - needed_bcount))
__CPROVER_requires((g_cm_allzero ==> (g_cm_anyzero && g_cm_already == 0)) && (!g_cm_anyzero ==> g_cm_already == needed_bcount) && g_cm_already <= needed_bcount && (g_cm_anyzero ==> g_cm_already < needed_bcount))
__CPROVER_requires(g_cm_isclaimed ? g_cm_already == needed_bcount : g_cm_already < needed_bcount)
__CPROVER_assigns(*memid, arena->search_idx, VC_BM_ASSIGNS, g_commit_n, g_commit_p, g_commit_size)
/* nothing free: NULL and no other state touched */
__CPROVER_ensures(!g_claim_ok ==> (__CPROVER_return_value == NULL && g_purge_unclaim_n == 0 && g_dirty_claim_n == 0 && g_cm_claim_n == 0 && g_cm_unclaim_n == 0 && g_commit_n == 0))
/* C14: the address handed out is exactly block g_claim_idx of the arena, and the range lies inside the arena */
__CPROVER_ensures(g_claim_ok ==> (__CPROVER_same_object(__CPROVER_return_value, g_start) && __CPROVER_POINTER_OFFSET(__CPROVER_return_value) == g_claim_idx * VC_BLK))
__CPROVER_ensures(g_claim_ok ==> (memid->memkind == MI_MEM_ARENA && memid->mem.arena.id == arena->id && memid->mem.arena.block_index == g_claim_idx &&
                                  memid->mem.arena.is_exclusive == arena->exclusive && memid->is_pinned == arena->memid.is_pinned))
/* C13: no block that is handed out stays scheduled for a purge */
__CPROVER_ensures((g_claim_ok && arena->blocks_purge != NULL) ==> (g_purge_unclaim_n == 1 && g_purge_idx == g_claim_idx && g_purge_count == needed_bcount))
/* C07/C13: "initially committed" is reported only if every block of the range is committed: either no block was uncommitted, or this
   call's commit of the whole range succeeded; a refused commit is recorded, not assumed */
__CPROVER_ensures((g_claim_ok && arena->blocks_committed == NULL) ==> (memid->initially_committed && g_commit_n == 0))
__CPROVER_ensures((g_claim_ok && arena->blocks_committed != NULL && commit) ==> (g_cm_claim_n == 1 && g_last_count == needed_bcount &&
     (g_cm_anyzero ? (g_commit_n == 1 && g_commit_p == __CPROVER_return_value && g_commit_size == needed_bcount * VC_BLK && memid->initially_committed == g_commit_ok)
                   : (g_commit_n == 0 && memid->initially_committed))))
__CPROVER_ensures((g_claim_ok && arena->blocks_committed != NULL && !commit) ==> (g_commit_n == 0 && memid->initially_committed == g_cm_isclaimed &&
     ((!g_cm_isclaimed && g_cm_already > 0) ==> (g_cm_unclaim_n == 1 && g_cmu_idx == g_claim_idx && g_cmu_count == needed_bcount))))
/* C04: the range is reported zero only if no block of it was dirty (or a fresh commit returned zeroed memory) */
__CPROVER_ensures((g_claim_ok && memid->initially_zero) ==> ((arena->memid.initially_zero && arena->blocks_dirty != NULL && g_dirty_allzero) || (g_commit_n == 1 && g_commit_ok && g_commit_zero)))
__CPROVER_ensures((g_claim_ok && arena->memid.initially_zero && arena->blocks_dirty != NULL) ==> (g_dirty_claim_n == 1));

/* ---- purge a range that this thread owns ---- */
static void mi_arena_purge(mi_arena_t* arena, size_t bitmap_idx, size_t blocks)
__CPROVER_requires(VC_ARENA_OK(arena) && VC_REC_ZERO && !arena->memid.is_pinned && blocks >= 1 && bitmap_idx <= arena->block_count && blocks <= arena->block_count - bitmap_idx)
__CPROVER_requires(g_cm_isclaimed ? g_cm_already == blocks : g_cm_already < blocks)
__CPROVER_assigns(VC_BM_ASSIGNS, g_ospurge_n, g_ospurge_p, g_ospurge_size, g_ospurge_allow_reset)
/* the OS is asked exactly once, for exactly the byte range of the blocks; a reset is allowed only when every block is committed */
__CPROVER_ensures(g_ospurge_n == 1 && __CPROVER_same_object(g_ospurge_p, g_start) && __CPROVER_POINTER_OFFSET(g_ospurge_p) == bitmap_idx * VC_BLK && g_ospurge_size == blocks * VC_BLK)
__CPROVER_ensures(!g_ospurge_allow_reset == !g_cm_isclaimed)     /* (compared as truth values: a havocked _Bool may hold any non-zero byte) */
/* the blocks are no longer scheduled; they lose their commit bits exactly when the OS says a re-commit is needed */
__CPROVER_ensures(g_purge_unclaim_n == 1 && g_purge_idx == bitmap_idx && g_purge_count == blocks)
__CPROVER_ensures(g_cm_unclaim_n == (g_ospurge_ret ? 1 : 0) && (g_ospurge_ret ==> (g_cmu_idx == bitmap_idx && g_cmu_count == blocks)));

/* recorder forms for callers */
static void c_arena_purge_rec(mi_arena_t* arena, size_t bitmap_idx, size_t blocks)
__CPROVER_requires(1) __CPROVER_assigns(g_apurge_n, g_apurge_idx, g_apurge_count)
__CPROVER_ensures(g_apurge_n == __CPROVER_old(g_apurge_n) + 1 && g_apurge_idx == bitmap_idx && g_apurge_count == blocks);
static void c_arena_schedule_purge_rec(mi_arena_t* arena, size_t bitmap_idx, size_t blocks)
__CPROVER_requires(1) __CPROVER_assigns(g_sched_n, g_sched_idx, g_sched_count)
__CPROVER_ensures(g_sched_n == __CPROVER_old(g_sched_n) + 1 && g_sched_idx == bitmap_idx && g_sched_count == blocks);
static void c_arenas_try_purge_rec(bool force, bool visit_all)
__CPROVER_requires(1) __CPROVER_assigns(g_arenas_try_purge_n) __CPROVER_ensures(g_arenas_try_purge_n == __CPROVER_old(g_arenas_try_purge_n) + 1 && !force);

/* ---- schedule a purge when a range is freed (C18) ---- */
long g_delay; int64_t g_now0; int64_t g_aexpire0, g_gexpire0;
static long c_arena_purge_delay_use2(void) __CPROVER_requires(1) __CPROVER_assigns() __CPROVER_ensures(__CPROVER_return_value == g_delay);
static void mi_arena_schedule_purge(mi_arena_t* arena, size_t bitmap_idx, size_t blocks)
__CPROVER_requires(VC_ARENA_OK(arena) && VC_REC_ZERO && !arena->memid.is_pinned && g_delay >= -1024 && g_delay <= (1L << 34) && g_now >= 0 && g_now < ((int64_t)1 << 61))
__CPROVER_requires(arena->purge_expire == g_aexpire0 && mi_arenas_purge_expire == g_gexpire0 && g_aexpire0 >= 0 && g_gexpire0 >= 0)
__CPROVER_assigns(arena->purge_expire, mi_arenas_purge_expire, VC_BM_ASSIGNS, g_apurge_n, g_apurge_idx, g_apurge_count)
/* delay -1: never purge */
__CPROVER_ensures(g_delay < 0 ==> (g_apurge_n == 0 && g_purge_claim_n == 0 && arena->purge_expire == g_aexpire0 && mi_arenas_purge_expire == g_gexpire0))
/* delay 0 (or while preloading): purged immediately, exactly the freed range */
__CPROVER_ensures((g_delay == 0 || (g_delay > 0 && g_preloading)) ==> (g_apurge_n == 1 && g_apurge_idx == bitmap_idx && g_apurge_count == blocks && g_purge_claim_n == 0))
/* delay > 0: the range becomes pending, and both the arena's and the global deadline are armed (kept if already armed) */
__CPROVER_ensures((g_delay > 0 && !g_preloading) ==> (g_apurge_n == 0 && g_purge_claim_n == 1 && g_purge_idx == bitmap_idx && g_purge_count == blocks &&
     arena->purge_expire == (g_aexpire0 != 0 ? g_aexpire0 : g_now + g_delay) && arena->purge_expire != 0 &&
     mi_arenas_purge_expire == ((g_aexpire0 != 0 || g_gexpire0 != 0) ? g_gexpire0 : g_now + g_delay)));

/* ---- give a range back ---- */
size_t g_arena_slot;   /* logical: index of the arena in mi_arenas[] */
void _mi_arena_free(void* p, size_t size, size_t committed_size, mi_memid_t memid)
__CPROVER_requires(VC_REC_ZERO && size >= 1 && size <= VC_NF * MI_BITMAP_FIELD_BITS * VC_BLK && committed_size <= size)
__CPROVER_requires(memid.memkind == MI_MEM_ARENA ==> (g_arena_slot < MI_MAX_ARENAS && memid.mem.arena.id == (int)g_arena_slot + 1 &&
      VC_ARENA_OK(mi_arenas[g_arena_slot]) && memid.mem.arena.block_index < mi_arenas[g_arena_slot]->block_count))
__CPROVER_assigns(VC_BM_ASSIGNS, g_osfree_n, g_osfree_p, g_osfree_size, g_sched_n, g_sched_idx, g_sched_count, g_arenas_try_purge_n)
/* C11: memory that came directly from the OS goes back to the OS, exactly once, with its pointer and size */
__CPROVER_ensures((p != NULL && mi_memkind_is_os(memid.memkind)) ==> (g_osfree_n == 1 && g_osfree_p == p && g_osfree_size == size && g_inuse_unclaim_n == 0))
__CPROVER_ensures(!mi_memkind_is_os(memid.memkind) ==> g_osfree_n == 0)
/* C14: an arena range is released exactly once and exactly: same first block, ceil(size/block) blocks */
__CPROVER_ensures((p != NULL && memid.memkind == MI_MEM_ARENA) ==> (g_inuse_unclaim_n == 1 && g_inu_idx == memid.mem.arena.block_index && g_inu_count == (size + VC_BLK - 1) / VC_BLK))
/* C07/C13: a range that was not fully committed loses its commit bits (so that it is re-committed before its next use) */
__CPROVER_ensures((p != NULL && memid.memkind == MI_MEM_ARENA && !mi_arenas[g_arena_slot]->memid.is_pinned && committed_size != size)
                  ==> (g_cm_unclaim_n == 1 && g_cmu_idx == memid.mem.arena.block_index && g_cmu_count == g_inu_count))
__CPROVER_ensures((p != NULL && memid.memkind == MI_MEM_ARENA && (mi_arenas[g_arena_slot]->memid.is_pinned || committed_size == size)) ==> g_cm_unclaim_n == 0)
/* C18/C11: the range is scheduled for a purge (unless the arena is pinned), before it is released */
__CPROVER_ensures((p != NULL && memid.memkind == MI_MEM_ARENA) ==> (g_sched_n == (mi_arenas[g_arena_slot]->memid.is_pinned ? 0 : 1)))
__CPROVER_ensures((p != NULL && memid.memkind == MI_MEM_ARENA && !mi_arenas[g_arena_slot]->memid.is_pinned) ==> (g_sched_idx == memid.mem.arena.block_index && g_sched_count == g_inu_count))
/* C18: an ordinary free lets expired arena purges run (non-forced) -- unless a double free was detected */
__CPROVER_ensures((p != NULL && (memid.memkind != MI_MEM_ARENA || g_inuse_allset)) ==> g_arenas_try_purge_n == 1);

/* ---- suitability (C15): truth tables ---- */
static bool mi_arena_id_is_suitable(mi_arena_id_t arena_id, bool arena_is_exclusive, mi_arena_id_t req_arena_id)
__CPROVER_requires(1) __CPROVER_assigns()
__CPROVER_ensures(__CPROVER_return_value == ((req_arena_id == 0) ? !arena_is_exclusive : (arena_id == req_arena_id)) || (req_arena_id == 0 && arena_id == 0 && __CPROVER_return_value));
/* _mi_arena_memid_is_suitable: the contract text lives in heap_suit.h (one text: enforced here on arena.c, used on heap.c) */
#define VC_ARENA_MEMID_SUIT_CONTRACT
#include "contracts/heap_suit.h"
#endif

#ifdef VC_CBMC
/* ================= C15: arena-bound heaps, exclusive arenas, managed regions ================= */
/* recorders of the allocation paths below _mi_arena_alloc_aligned */
size_t g_ta_n; mi_arena_id_t g_ta_req; void* g_ta_ret;              /* mi_arena_try_alloc */
size_t g_tai_n; mi_arena_id_t g_tai_req; void* g_tai_ret;           /* mi_arena_try_alloc_at_id */
size_t g_reserve_n; bool g_reserve_ret;                             /* mi_arena_reserve */
size_t g_osalloc_n; void* g_osalloc_ret;                            /* _mi_os_alloc_aligned(_at_offset) */
static void* c_arena_try_alloc_rec(int numa_node, size_t size, size_t alignment, bool commit, bool allow_large, mi_arena_id_t req_arena_id, mi_memid_t* memid)
__CPROVER_requires(1) __CPROVER_assigns(g_ta_n, g_ta_req, g_ta_ret)
__CPROVER_ensures(g_ta_n == __CPROVER_old(g_ta_n) + 1 && g_ta_req == req_arena_id && g_ta_ret == __CPROVER_return_value);
static void* c_arena_try_alloc_at_id_rec(mi_arena_id_t arena_id, bool match_numa_node, int numa_node, size_t size, size_t alignment, bool commit, bool allow_large, mi_arena_id_t req_arena_id, mi_memid_t* memid)
__CPROVER_requires(1) __CPROVER_assigns(g_tai_n, g_tai_req, g_tai_ret)
__CPROVER_ensures(g_tai_n == __CPROVER_old(g_tai_n) + 1 && g_tai_req == req_arena_id && g_tai_ret == __CPROVER_return_value);
static bool c_arena_reserve_rec(size_t req_size, bool allow_large, mi_arena_id_t* arena_id)
__CPROVER_requires(__CPROVER_w_ok(arena_id, sizeof(*arena_id))) __CPROVER_assigns(g_reserve_n, *arena_id)
__CPROVER_ensures(g_reserve_n == __CPROVER_old(g_reserve_n) + 1 && __CPROVER_return_value == g_reserve_ret);
void* _mi_os_alloc_aligned(size_t size, size_t alignment, bool commit, bool allow_large, mi_memid_t* memid)
__CPROVER_requires(1) __CPROVER_assigns(g_osalloc_n) __CPROVER_ensures(g_osalloc_n == __CPROVER_old(g_osalloc_n) + 1 && __CPROVER_return_value == g_osalloc_ret);
void* _mi_os_alloc_aligned_at_offset(size_t size, size_t alignment, size_t offset, bool commit, bool allow_large, mi_memid_t* memid)
__CPROVER_requires(1) __CPROVER_assigns(g_osalloc_n) __CPROVER_ensures(g_osalloc_n == __CPROVER_old(g_osalloc_n) + 1 && __CPROVER_return_value == g_osalloc_ret);
static inline int _mi_os_numa_node(void) __CPROVER_requires(1) __CPROVER_assigns() __CPROVER_ensures(1);

void* _mi_arena_alloc_aligned(size_t size, size_t alignment, size_t align_offset, bool commit, bool allow_large, mi_arena_id_t req_arena_id, mi_memid_t* memid)
__CPROVER_requires(__CPROVER_is_fresh(memid, sizeof(mi_memid_t)) && size >= 1 && g_ta_n == 0 && g_tai_n == 0 && g_reserve_n == 0 && g_osalloc_n == 0)
__CPROVER_assigns(*memid, errno, g_ta_n, g_ta_req, g_ta_ret, g_tai_n, g_tai_req, g_tai_ret, g_reserve_n, g_osalloc_n)
/* a heap bound to a specific arena never falls back to the OS and never reserves a fresh arena: NULL (ENOMEM) when its arena is full */
__CPROVER_ensures(req_arena_id != 0 ==> (g_osalloc_n == 0 && g_reserve_n == 0 && g_tai_n == 0))
__CPROVER_ensures((req_arena_id != 0 && __CPROVER_return_value != NULL) ==> (g_ta_n == 1 && g_ta_req == req_arena_id && __CPROVER_return_value == g_ta_ret))
__CPROVER_ensures((req_arena_id != 0 && (g_ta_n == 0 || g_ta_ret == NULL)) ==> (__CPROVER_return_value == NULL && errno == ENOMEM))
/* the request id is passed on unchanged to every arena attempt */
__CPROVER_ensures(g_ta_n >= 1 ==> g_ta_req == req_arena_id)
__CPROVER_ensures(g_tai_n >= 1 ==> g_tai_req == req_arena_id)
/* OS allocation disabled by option: no OS call either */
__CPROVER_ensures(g_opt[mi_option_disallow_os_alloc] != 0 ==> g_osalloc_n == 0);

/* allocate in one specific arena: NULL unless that arena is suitable for the request */
size_t g_taa_n;
static void* c_try_alloc_at_rec(mi_arena_t* arena, size_t arena_index, size_t needed_bcount, bool commit, mi_memid_t* memid)
__CPROVER_requires(1) __CPROVER_assigns(g_taa_n) __CPROVER_ensures(g_taa_n == __CPROVER_old(g_taa_n) + 1);
static void* mi_arena_try_alloc_at_id(mi_arena_id_t arena_id, bool match_numa_node, int numa_node, size_t size, size_t alignment, bool commit, bool allow_large, mi_arena_id_t req_arena_id, mi_memid_t* memid)
__CPROVER_requires(arena_id >= 1 && arena_id <= MI_MAX_ARENAS && g_taa_n == 0 && size <= ((size_t)1 << 45))
__CPROVER_requires(mi_arenas[arena_id - 1] == NULL || (__CPROVER_is_fresh(mi_arenas[arena_id - 1], sizeof(mi_arena_t)) && mi_arenas[arena_id - 1]->id == arena_id))
__CPROVER_assigns(g_taa_n)
__CPROVER_ensures(g_taa_n <= 1)
/* memory of an exclusive arena is only given to requests for exactly that arena; a bound request only gets its own arena */
__CPROVER_ensures(g_taa_n == 1 ==> (mi_arenas[arena_id - 1] != NULL && (req_arena_id == 0 ? !mi_arenas[arena_id - 1]->exclusive : arena_id == req_arena_id)))
__CPROVER_ensures(g_taa_n == 0 ==> __CPROVER_return_value == NULL);

/* ---- memory handed to mi_manage_os_memory(_ex) is only ever used within the bounds given ---- */
uint8_t* g_region; size_t g_roff;        /* the caller's region starts at byte g_roff of the object g_region (so that its address can be unaligned) */
mi_arena_t* g_newarena; size_t g_meta_size; size_t g_add_n; bool g_add_ret;
size_t g_post_n, g_post_count, g_post_idx, g_post_fields;
void* _mi_arena_meta_zalloc(size_t size, mi_memid_t* memid)
__CPROVER_requires(__CPROVER_w_ok(memid, sizeof(*memid)) && size >= sizeof(mi_arena_t) && size <= 4096)
__CPROVER_assigns(*memid, g_newarena, g_meta_size)
__CPROVER_ensures(g_meta_size == size && (__CPROVER_return_value == NULL ? g_newarena == NULL : (__CPROVER_is_fresh(__CPROVER_return_value, size) && g_newarena == __CPROVER_return_value)));
static bool c_arena_add_rec(mi_arena_t* arena, mi_arena_id_t* arena_id, mi_stats_t* stats)
__CPROVER_requires(arena == g_newarena) __CPROVER_assigns(g_add_n; arena_id != NULL: *arena_id)
__CPROVER_ensures(g_add_n == __CPROVER_old(g_add_n) + 1 && __CPROVER_return_value == g_add_ret);
bool _mi_bitmap_claim(mi_bitmap_t bitmap, size_t bitmap_fields, size_t count, mi_bitmap_index_t bitmap_idx, bool* any_zero)
__CPROVER_requires(any_zero == NULL) __CPROVER_assigns(g_post_n, g_post_count, g_post_idx, g_post_fields)
__CPROVER_ensures(g_post_n == __CPROVER_old(g_post_n) + 1 && g_post_count == count && g_post_idx == bitmap_idx && g_post_fields == bitmap_fields);
void* memset(void* s, int c, size_t n) __CPROVER_requires(n == 0 || __CPROVER_w_ok(s, n)) __CPROVER_assigns(n > 0: __CPROVER_object_whole(s)) __CPROVER_ensures(__CPROVER_return_value == s);

#define VC_OFFS(p) __CPROVER_POINTER_OFFSET(p)
static bool mi_manage_os_memory_ex2(void* start, size_t size, bool is_large, int numa_node, bool exclusive, mi_memid_t memid, mi_arena_id_t* arena_id)
__CPROVER_requires(g_region != NULL && start == g_region + g_roff && g_roff <= ((size_t)1 << 40) && size <= ((size_t)1 << 34)   /* regions up to 16 GiB (8 bitmap fields): larger ones make the symbolic bitmap offsets exhaust the solver */ && (arena_id == NULL || __CPROVER_is_fresh(arena_id, sizeof(*arena_id))))
__CPROVER_requires(g_add_n == 0 && g_post_n == 0 && g_newarena == NULL)
__CPROVER_assigns(g_newarena, g_meta_size, g_add_n, g_post_n, g_post_count, g_post_idx, g_post_fields; arena_id != NULL: *arena_id)
/* regions smaller than one block (also after alignment) are rejected and nothing is registered */
__CPROVER_ensures(size < MI_ARENA_BLOCK_SIZE ==> (!__CPROVER_return_value && g_add_n == 0))
__CPROVER_ensures(__CPROVER_return_value ==> (g_add_n == 1 && g_newarena != NULL))
/* the arena that is registered lies inside [start, start+size): aligned start not before the region, last block not behind it */
__CPROVER_ensures(g_add_n == 1 ==> (__CPROVER_same_object(g_newarena->start, g_region) && VC_OFFS(g_newarena->start) >= g_roff && (VC_OFFS(g_newarena->start) % MI_SEGMENT_ALIGN) == 0 &&
     g_newarena->block_count >= 1 && VC_OFFS(g_newarena->start) + g_newarena->block_count * MI_ARENA_BLOCK_SIZE <= g_roff + size))
/* bitmap geometry: enough fields, and the bits behind the last block are claimed for good so that they are never handed out */
__CPROVER_ensures(g_add_n == 1 ==> (g_newarena->field_count * MI_BITMAP_FIELD_BITS >= g_newarena->block_count && (g_newarena->field_count - 1) * MI_BITMAP_FIELD_BITS < g_newarena->block_count &&
     g_meta_size >= sizeof(mi_arena_t) + (g_newarena->memid.is_pinned ? 3 : 5) * g_newarena->field_count * sizeof(mi_bitmap_field_t)))
__CPROVER_ensures((g_add_n == 1 && g_newarena->field_count * MI_BITMAP_FIELD_BITS > g_newarena->block_count) ==>
     (g_post_n == 1 && g_post_fields == g_newarena->field_count && g_post_count == g_newarena->field_count * MI_BITMAP_FIELD_BITS - g_newarena->block_count &&
      g_post_idx == g_newarena->block_count))
__CPROVER_ensures(g_add_n == 1 ==> (g_newarena->exclusive == exclusive && g_newarena->blocks_dirty == &g_newarena->blocks_inuse[g_newarena->field_count]));
#endif
