/* page-queue.c: the doubly linked page queues of a heap.  Link surgery on harness-built objects (page, its neighbours, the queues, the
   heap); QWF_at = the instance of the queue invariant at the touched pages: neighbour->next/prev point back, first/last are the ends.
   mi_heap_queue_first_update (the direct small-page table) is a recorder here. */
#ifdef VC_CBMC
mi_heap_t* g_qheap; mi_page_t* g_qpage; mi_page_queue_t *g_qfrom, *g_qto;
mi_page_t *g_prev, *g_next;          /* neighbours of the page in its queue (NULL at the ends) */
mi_page_t *g_tfirst, *g_tlast;       /* ends of the target queue (both NULL when empty) */
mi_page_t *g_ofirst, *g_olast;       /* logical: ends of the source queue before the call */
size_t g_pc0; bool g_ha0;            /* logical: heap->page_count, the page's has_aligned flag before the call */
size_t g_fu_n; const mi_page_queue_t* g_fu_pq;
static inline void c_first_update_rec(mi_heap_t* heap, const mi_page_queue_t* pq)
__CPROVER_requires(heap == g_qheap) __CPROVER_assigns(g_fu_n, g_fu_pq) __CPROVER_ensures(g_fu_n == __CPROVER_old(g_fu_n) + 1 && g_fu_pq == pq);
#define VC_IS_FULLQ(q)   ((q)->block_size == (MI_MEDIUM_OBJ_SIZE_MAX + (2 * sizeof(uintptr_t))))    /* how page-queue.c marks the full queue */
/* the page sits in queue q between g_prev and g_next */
#define VC_IN_QUEUE(q)   (g_qpage->prev == g_prev && g_qpage->next == g_next && (g_prev != NULL ==> g_prev->next == g_qpage) && (g_next != NULL ==> g_next->prev == g_qpage) && \
                          (q)->first == g_ofirst && (q)->last == g_olast && (g_prev == NULL) == (g_ofirst == g_qpage) && (g_next == NULL) == (g_olast == g_qpage) && \
                          g_ofirst != NULL && g_olast != NULL && g_prev != g_qpage && g_next != g_qpage)
#define VC_UNLINKED(q)   ((g_prev != NULL ==> g_prev->next == g_next) && (g_next != NULL ==> g_next->prev == g_prev) && \
                          (q)->first == (g_ofirst == g_qpage ? g_next : g_ofirst) && (q)->last == (g_olast == g_qpage ? g_prev : g_olast))

static void mi_page_queue_remove(mi_page_queue_t* queue, mi_page_t* page)
__CPROVER_requires(page == g_qpage && queue == g_qfrom && VC_IN_QUEUE(queue) && g_qheap->page_count == g_pc0 && g_pc0 >= 1 && g_fu_n == 0 && !g_ha0 == !page->flags.x.has_aligned)
__CPROVER_assigns(__CPROVER_object_whole(g_qpage), __CPROVER_object_whole(g_qfrom), g_qheap->page_count, g_fu_n, g_fu_pq; g_prev != NULL: __CPROVER_object_whole(g_prev); g_next != NULL: __CPROVER_object_whole(g_next))
/* the neighbours are linked to each other, the ends move inward, the page is detached; nothing else about the neighbours is written (frame below) */
__CPROVER_ensures(VC_UNLINKED(queue) && page->next == NULL && page->prev == NULL)
__CPROVER_ensures(g_qheap->page_count == g_pc0 - 1 && !page->flags.x.in_full && !page->flags.x.has_aligned == !g_ha0)
/* the direct table is refreshed exactly when the head changed */
__CPROVER_ensures(g_fu_n == (g_ofirst == g_qpage ? 1 : 0) && (g_fu_n == 1 ==> g_fu_pq == queue))
__CPROVER_ensures((g_prev != NULL ==> g_prev->prev == __CPROVER_old(g_prev->prev)) && (g_next != NULL ==> g_next->next == __CPROVER_old(g_next->next)) && queue->block_size == __CPROVER_old(queue->block_size));

static void mi_page_queue_push(mi_heap_t* heap, mi_page_queue_t* queue, mi_page_t* page)
__CPROVER_requires(heap == g_qheap && page == g_qpage && queue == g_qto && queue->first == g_tfirst && queue->last == g_tlast && (g_tfirst == NULL) == (g_tlast == NULL))
__CPROVER_requires((g_tfirst != NULL ==> g_tfirst->prev == NULL) && g_tfirst != g_qpage && g_qheap->page_count == g_pc0 && g_pc0 < ((size_t)1 << 40) && g_fu_n == 0 && !g_ha0 == !page->flags.x.has_aligned)
__CPROVER_assigns(__CPROVER_object_whole(g_qpage), __CPROVER_object_whole(g_qto), g_qheap->page_count, g_fu_n, g_fu_pq; g_tfirst != NULL: __CPROVER_object_whole(g_tfirst))
/* pushed at the front */
__CPROVER_ensures(queue->first == page && page->prev == NULL && page->next == g_tfirst && (g_tfirst != NULL ? (g_tfirst->prev == page && queue->last == g_tlast) : queue->last == page))
__CPROVER_ensures(g_qheap->page_count == g_pc0 + 1 && !page->flags.x.in_full == !VC_IS_FULLQ(queue) && !page->flags.x.has_aligned == !g_ha0 && g_fu_n == 1 && g_fu_pq == queue)
__CPROVER_ensures((g_tfirst != NULL ==> g_tfirst->next == __CPROVER_old(g_tfirst->next)) && queue->block_size == __CPROVER_old(queue->block_size));

static void mi_page_queue_enqueue_from_ex(mi_page_queue_t* to, mi_page_queue_t* from, bool enqueue_at_end, mi_page_t* page)
__CPROVER_requires(page == g_qpage && from == g_qfrom && to == g_qto && VC_IN_QUEUE(from) && to->first == g_tfirst && to->last == g_tlast && (g_tfirst == NULL) == (g_tlast == NULL))
__CPROVER_requires(enqueue_at_end && (g_tlast != NULL ==> g_tlast->next == NULL) && g_tlast != g_qpage && g_tlast != g_prev && g_tlast != g_next && g_fu_n == 0 && !g_ha0 == !page->flags.x.has_aligned)
__CPROVER_requires(g_qheap->page_count == g_pc0)
__CPROVER_assigns(__CPROVER_object_whole(g_qpage), __CPROVER_object_whole(g_qfrom), __CPROVER_object_whole(g_qto), g_fu_n, g_fu_pq; g_prev != NULL: __CPROVER_object_whole(g_prev); g_next != NULL: __CPROVER_object_whole(g_next); g_tlast != NULL: __CPROVER_object_whole(g_tlast))
/* unlinked from the source queue, appended to the target queue: the page is in exactly one queue afterwards and no page is dropped from either */
__CPROVER_ensures(VC_UNLINKED(from))
__CPROVER_ensures(to->last == page && page->next == NULL && page->prev == g_tlast && (g_tlast != NULL ? (g_tlast->next == page && to->first == g_tfirst) : to->first == page))
__CPROVER_ensures(g_qheap->page_count == g_pc0 && !page->flags.x.in_full == !VC_IS_FULLQ(to) && !page->flags.x.has_aligned == !g_ha0)
__CPROVER_ensures(g_fu_n == (g_ofirst == g_qpage ? 1 : 0) + (g_tlast == NULL ? 1 : 0));
#endif
