/* seg_find.h -- C15: cached free spans of the same thread. mi_segments_page_find_and_allocate may take a span only from a segment whose
   memid suits the requesting heap's arena: the recorder of mi_segment_span_allocate carries that as a call-site precondition.
   Bounded stand-in: one non-empty span queue with at most 2 spans (harness/seg_find.c). Included after src/segment.c; SCALED. */
#ifdef VC_CBMC
#define VC_ARENA_MEMID_SUIT_CONTRACT
#include "contracts/heap_suit.h"
mi_arena_id_t g_freq;                 /* logical: the arena the request is bound to (0 = none) */
size_t g_fa_n, g_fsplit_n, g_fdel_n, g_fco_n;
static mi_page_t* c_span_allocate_suit(mi_segment_t* segment, size_t slice_index, size_t slice_count)
__CPROVER_requires(VC_SUIT(segment->memid, g_freq))          /* call-site obligation: never a span of an unsuitable segment */
__CPROVER_assigns(g_fa_n) __CPROVER_ensures(g_fa_n == __CPROVER_old(g_fa_n) + 1);
static void c_slice_split_rec3(mi_segment_t* segment, mi_slice_t* slice, size_t slice_count, mi_segments_tld_t* tld)
__CPROVER_requires(VC_SUIT(segment->memid, g_freq)) __CPROVER_assigns(g_fsplit_n) __CPROVER_ensures(g_fsplit_n == __CPROVER_old(g_fsplit_n) + 1);
static void c_sq_delete_rec3(mi_span_queue_t* sq, mi_slice_t* slice)
__CPROVER_requires(1) __CPROVER_assigns(g_fdel_n) __CPROVER_ensures(g_fdel_n == __CPROVER_old(g_fdel_n) + 1);
static mi_slice_t* c_coalesce_rec3(mi_slice_t* slice, mi_segments_tld_t* tld)
__CPROVER_requires(1) __CPROVER_assigns(g_fco_n) __CPROVER_ensures(g_fco_n == __CPROVER_old(g_fco_n) + 1);
static mi_page_t* c_find_alloc_spec(size_t slice_count, mi_arena_id_t req_arena_id, mi_segments_tld_t* tld)
__CPROVER_requires(tld == &vc_ftld && req_arena_id == g_freq && slice_count <= MI_SLICES_PER_SEGMENT && g_fa_n == 0 && g_fdel_n == 0 && g_fco_n == 0)
__CPROVER_assigns(g_fa_n, g_fsplit_n, g_fdel_n, g_fco_n)
/* at most one span is taken; it is unlinked exactly once before it is allocated; a page is returned only from an allocation; a failed commit gives the span back */
__CPROVER_ensures(g_fa_n <= 1 && g_fdel_n == g_fa_n && (__CPROVER_return_value != NULL ==> g_fa_n == 1) && g_fco_n <= g_fa_n && (g_fco_n == 1 ==> __CPROVER_return_value == NULL));
#endif
