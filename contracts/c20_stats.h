/* c20_stats.h -- JSON / buffered statistics output stays inside its buffer (C20). Included AFTER src/stats.c. */
#ifdef VC_CBMC
#define VC_MSGCAP 128      /* every caller prints from a char buf[128] (or a shorter literal): real buffer size of the call sites */
size_t g_size0, g_used0;
size_t g_expand_n, g_expand0;
/* growth of a malloc'ed buffer: fails (nothing changes) or doubles it (recorder form used by the printer) */
static bool c_heap_buf_expand_use(mi_heap_buf_t* hbuf)
__CPROVER_requires(hbuf != NULL)
__CPROVER_assigns(hbuf->buf, hbuf->size, g_expand_n; (hbuf->buf != NULL && hbuf->size > 0): hbuf->buf[hbuf->size - 1])
__CPROVER_ensures(g_expand_n == __CPROVER_old(g_expand_n) + 1)
__CPROVER_ensures(!__CPROVER_return_value ==> (hbuf->buf == __CPROVER_old(hbuf->buf) && hbuf->size == __CPROVER_old(hbuf->size)))
__CPROVER_ensures(__CPROVER_return_value ==> (hbuf->can_realloc && hbuf->size == (__CPROVER_old(hbuf->size) == 0 ? 2*MI_KiB : 2*__CPROVER_old(hbuf->size)) && __CPROVER_is_fresh(hbuf->buf, hbuf->size)));

static void mi_heap_buf_print(mi_heap_buf_t* hbuf, const char* msg)
__CPROVER_requires(__CPROVER_is_fresh(hbuf, sizeof(*hbuf)) && __CPROVER_is_fresh(msg, VC_MSGCAP) && msg[VC_MSGCAP - 1] == 0)
__CPROVER_requires(hbuf->size == g_size0 && hbuf->used == g_used0 && g_size0 <= ((size_t)1 << 20) && g_expand_n == g_expand0 && g_expand0 < 1000)
/* caller-supplied buffer of ANY size >= 1 (mi_stats_get_json(output_size, output_buf)); the growing malloc'ed buffer is covered
   only through the contract of mi_heap_buf_expand (a havocked buffer pointer makes every store a case split over all objects) */
__CPROVER_requires(!hbuf->can_realloc && g_size0 >= 1 && __CPROVER_is_fresh(hbuf->buf, g_size0) && g_used0 < g_size0)
__CPROVER_assigns(hbuf->used, __CPROVER_object_whole(hbuf->buf))
/* never past the end, terminator inside (the frame plus CBMC's bounds checks give: no write outside [buf, buf+size)) */
__CPROVER_ensures(hbuf->size == 0 ? hbuf->used == 0 : hbuf->used < hbuf->size)
__CPROVER_ensures(hbuf->used >= g_used0)
__CPROVER_ensures((hbuf->size > 0 && (hbuf->used > g_used0 || hbuf->size > g_size0)) ==> hbuf->buf[hbuf->used] == 0)
/* a fixed buffer is never replaced or resized */
__CPROVER_ensures(!hbuf->can_realloc ==> (hbuf->size == g_size0 && g_expand_n == g_expand0));

/* real growth function (enforced separately) */
void* g_rz_ret;
void* mi_rezalloc(void* p, size_t newsize)
__CPROVER_requires(1) __CPROVER_assigns(g_rz_ret)
__CPROVER_ensures(__CPROVER_return_value == NULL ? g_rz_ret == NULL : (__CPROVER_is_fresh(__CPROVER_return_value, newsize) && g_rz_ret == __CPROVER_return_value));
static bool mi_heap_buf_expand(mi_heap_buf_t* hbuf)
__CPROVER_requires(hbuf == NULL || (__CPROVER_is_fresh(hbuf, sizeof(*hbuf)) && hbuf->size == g_size0 && g_size0 <= ((size_t)1 << 62) &&
                   (g_size0 == 0 ? hbuf->buf == NULL : __CPROVER_is_fresh(hbuf->buf, g_size0))))
__CPROVER_assigns(g_rz_ret; hbuf != NULL: hbuf->buf, hbuf->size; (hbuf != NULL && hbuf->buf != NULL): __CPROVER_object_whole(hbuf->buf))
__CPROVER_ensures(hbuf == NULL ==> !__CPROVER_return_value)
__CPROVER_ensures((hbuf != NULL && !hbuf->can_realloc) ==> (!__CPROVER_return_value && hbuf->size == g_size0))
__CPROVER_ensures((hbuf != NULL && __CPROVER_return_value) ==> (hbuf->size == (g_size0 == 0 ? 2*MI_KiB : 2*g_size0) && hbuf->buf == g_rz_ret && hbuf->buf != NULL))
__CPROVER_ensures((hbuf != NULL && !__CPROVER_return_value) ==> hbuf->size == g_size0);

/* line buffered output wrapper: used never exceeds count, the flush writes the terminator inside the count+1 bytes */
size_t g_flush_n;
static void c_buffered_flush_use(buffered_t* buf)
__CPROVER_requires(buf->used <= buf->count)
__CPROVER_assigns(buf->used, g_flush_n) __CPROVER_ensures(buf->used == 0 && g_flush_n == __CPROVER_old(g_flush_n) + 1);
static void mi_buffered_out(const char* msg, void* arg)
__CPROVER_requires(__CPROVER_is_fresh(msg, VC_MSGCAP) && msg[VC_MSGCAP - 1] == 0)
__CPROVER_requires(__CPROVER_is_fresh(arg, sizeof(buffered_t)) && ((buffered_t*)arg)->count >= 1 && ((buffered_t*)arg)->count <= 4096 &&
                   ((buffered_t*)arg)->used <= ((buffered_t*)arg)->count && __CPROVER_is_fresh(((buffered_t*)arg)->buf, ((buffered_t*)arg)->count + 1))
__CPROVER_assigns(((buffered_t*)arg)->used, g_flush_n, __CPROVER_object_whole(((buffered_t*)arg)->buf))
__CPROVER_ensures(((buffered_t*)arg)->used <= ((buffered_t*)arg)->count);
#endif
