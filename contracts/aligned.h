/* aligned.h -- contracts on the real alloc-aligned.c (C03 alignment, C04 zero, C05 realloc, C06 bad requests).
   Included AFTER src/alloc-aligned.c.  One run per alignment constant VC_ALIGN (a symbolic `% alignment` is a 64-bit divider). */
#ifdef VC_CBMC
#ifndef VC_ALIGN
#define VC_ALIGN 64
#endif
#define VC_POW2(a) ((a) != 0 && (((a) & ((a)-1)) == 0))

/* ---- logical variables: the block the underlying allocator hands out is [g_blk+g_pad, +g_bsize) inside a fresh object, so
   that its ADDRESS can be any multiple of 16 (a fresh CBMC object itself is maximally aligned) ---- */
uint8_t* g_blk;  size_t g_pad;  size_t g_bsize;
size_t   g_k;                /* witness byte offset inside the returned block */
mi_page_t* g_page;           /* the page of that block */
size_t g_malloc_n, g_malloc_size, g_malloc_halign; bool g_malloc_zero;
size_t g_free_n; void* g_free_p;
void*  g_q;

#define VC_BLK_OK (g_pad <= (VC_ALIGN > 4096 ? VC_ALIGN : 4096) && (g_pad % 16) == 0 && g_bsize <= ((size_t)1 << 24) + (VC_ALIGN <= MI_BLOCK_ALIGNMENT_MAX ? VC_ALIGN : 0))
#define VC_MALLOC_POST(size, zero, halign) \
  __CPROVER_ensures(g_malloc_n == __CPROVER_old(g_malloc_n) + 1 && g_malloc_size == (size) && g_malloc_zero == (zero) && g_malloc_halign == (halign)) \
  __CPROVER_ensures(__CPROVER_return_value == NULL ? g_q == NULL : (__CPROVER_is_fresh(g_blk, g_pad + g_bsize) && __CPROVER_return_value == g_blk + g_pad && g_q == __CPROVER_return_value)) \
  __CPROVER_ensures((__CPROVER_return_value != NULL && (zero) && g_k < g_bsize) ==> g_blk[g_pad + g_k] == 0)

void* _mi_heap_malloc_zero(mi_heap_t* heap, size_t size, bool zero)
__CPROVER_requires(1)
__CPROVER_assigns(g_malloc_n, g_malloc_size, g_malloc_zero, g_malloc_halign, g_blk, g_q)
VC_MALLOC_POST(size, zero, 0);
void* _mi_heap_malloc_zero_ex(mi_heap_t* heap, size_t size, bool zero, size_t huge_alignment)
__CPROVER_requires(1)
__CPROVER_assigns(g_malloc_n, g_malloc_size, g_malloc_zero, g_malloc_halign, g_blk, g_q)
VC_MALLOC_POST(size, zero, huge_alignment);

static inline mi_page_t* _mi_ptr_page(void* p)
__CPROVER_requires(p != NULL)
__CPROVER_assigns(g_page)
__CPROVER_ensures(__CPROVER_is_fresh(__CPROVER_return_value, sizeof(mi_page_t)) && g_page == __CPROVER_return_value && !g_page->flags.x.has_aligned);

void _mi_padding_shrink(const mi_page_t* page, const mi_block_t* block, const size_t min_size)
__CPROVER_requires(1) __CPROVER_assigns() __CPROVER_ensures(1);

void mi_free(void* p)
__CPROVER_requires(1) __CPROVER_assigns(g_free_n, g_free_p)
__CPROVER_ensures(g_free_n == __CPROVER_old(g_free_n) + 1 && g_free_p == p);

/* usable size of a (possibly interior) pointer into the block: what is left of the block behind it */
size_t g_usable_old;
#define VC_USABLE_OF(p) ((p) == NULL ? (size_t)0 : (__CPROVER_same_object(p, g_blk) && g_blk != NULL ? g_pad + g_bsize - __CPROVER_POINTER_OFFSET(p) : ((p) == g_q && g_blk == NULL ? g_bsize : g_usable_old)))
size_t mi_usable_size(const void* p)
__CPROVER_requires(1) __CPROVER_assigns() __CPROVER_ensures(__CPROVER_return_value == VC_USABLE_OF(p));

size_t mi_good_size(size_t size)
__CPROVER_requires(1) __CPROVER_assigns() __CPROVER_ensures(__CPROVER_return_value >= size);

#define VC_OFF(p) __CPROVER_POINTER_OFFSET(p)
#define VC_KC(p) ((g_kk) < __CPROVER_OBJECT_SIZE(p) ? (g_kk) : (size_t)0)
size_t g_kk;     /* witness byte offset inside the destination OBJECT */
#define VC_IN(p, n) (g_kk >= VC_OFF(p) && g_kk - VC_OFF(p) < (n))
#define VC_OBJBYTE(p) (*((uint8_t*)(p) - VC_OFF(p) + VC_KC(p)))
#define VC_MEMZERO_CONTRACT \
  __CPROVER_requires(n == 0 || __CPROVER_w_ok(dst, n)) \
  __CPROVER_assigns(n > 0: __CPROVER_object_whole(dst)) \
  __CPROVER_ensures((n > 0 && VC_IN(dst, n)) ==> VC_OBJBYTE(dst) == 0) \
  __CPROVER_ensures((n > 0 && !VC_IN(dst, n) && g_kk < __CPROVER_OBJECT_SIZE(dst)) ==> VC_OBJBYTE(dst) == __CPROVER_old(VC_OBJBYTE(dst)))
static inline void _mi_memzero(void* dst, size_t n) VC_MEMZERO_CONTRACT;
static inline void _mi_memzero_aligned(void* dst, size_t n) VC_MEMZERO_CONTRACT;
static inline void _mi_memcpy_aligned(void* dst, const void* src, size_t n)
__CPROVER_requires(n == 0 || (__CPROVER_w_ok(dst, n) && __CPROVER_r_ok(src, n) && !__CPROVER_same_object(dst, src)))
__CPROVER_assigns(n > 0: __CPROVER_object_whole(dst))
__CPROVER_ensures((n > 0 && VC_IN(dst, n)) ==> VC_OBJBYTE(dst) == ((const uint8_t*)src)[g_kk - VC_OFF(dst)])
__CPROVER_ensures((n > 0 && !VC_IN(dst, n) && g_kk < __CPROVER_OBJECT_SIZE(dst)) ==> VC_OBJBYTE(dst) == __CPROVER_old(VC_OBJBYTE(dst)));

/* ---- (a) over-allocate and align inside the block ---- */
#define VC_OVERSIZE(size) ((VC_ALIGN > MI_BLOCK_ALIGNMENT_MAX) ? ((size) <= MI_SMALL_SIZE_MAX ? MI_SMALL_SIZE_MAX + 1 : (size)) : (((size) < 16 ? 16 : (size)) + VC_ALIGN - 1))
static void* mi_heap_malloc_zero_aligned_at_overalloc(mi_heap_t* const heap, const size_t size, const size_t alignment, const size_t offset, const bool zero)
__CPROVER_requires(alignment == VC_ALIGN && size <= (MI_MAX_ALLOC_SIZE - MI_PADDING_SIZE) && size <= ((size_t)1 << 23) && offset <= ((size_t)1 << 31))
__CPROVER_requires(VC_BLK_OK && g_bsize >= VC_OVERSIZE(size))                /* the allocator's size guarantee (C16) */
__CPROVER_requires(g_kk == g_pad + g_k)                                        /* one witness byte, in block and in object coordinates */
__CPROVER_requires(VC_ALIGN > MI_BLOCK_ALIGNMENT_MAX ==> (g_pad == 0 && !zero))   /* zeroing of over-aligned huge blocks: UNDECIDED (see DESIGN.md, C03/C04 limits) */   /* huge alignment: the dedicated segment is placed so that the block is aligned (C03, segment side) */
__CPROVER_requires(g_malloc_n == 0 && g_q == NULL && g_blk == NULL)
__CPROVER_assigns(g_malloc_n, g_malloc_size, g_malloc_zero, g_malloc_halign, g_blk, g_q, g_page)
/* very large alignments cannot be combined with an offset: clean failure, nothing allocated */
__CPROVER_ensures((VC_ALIGN > MI_BLOCK_ALIGNMENT_MAX && offset != 0) ==> (__CPROVER_return_value == NULL && g_malloc_n == 0))
__CPROVER_ensures(g_malloc_n <= 1 && (g_malloc_n == 1 ==> g_malloc_size == VC_OVERSIZE(size)))
__CPROVER_ensures(__CPROVER_return_value == NULL ==> g_q == NULL)
/* (p + offset) is a multiple of the alignment */
__CPROVER_ensures(__CPROVER_return_value != NULL ==> (((uintptr_t)__CPROVER_return_value + offset) % VC_ALIGN) == 0)
/* the result points into the over-allocated block, at most alignment-1 bytes behind its start, and `size` bytes fit behind it */
__CPROVER_ensures(__CPROVER_return_value != NULL ==> (__CPROVER_same_object(__CPROVER_return_value, g_blk) &&
     VC_OFF(__CPROVER_return_value) >= g_pad && VC_OFF(__CPROVER_return_value) - g_pad < VC_ALIGN &&
     VC_OFF(__CPROVER_return_value) + size <= g_pad + g_bsize))
/* interior pointer => the page is flagged so that free/usable_size/realloc find the block start */
__CPROVER_ensures((__CPROVER_return_value != NULL && __CPROVER_return_value != g_q) ==> g_page->flags.x.has_aligned)
/* zero-initialising: the whole requested size reads as zero (witness byte g_k in block coordinates: if it falls inside
   [result, result+size) it is zero) */
__CPROVER_ensures((__CPROVER_return_value != NULL && zero && g_pad + g_k >= VC_OFF(__CPROVER_return_value) && g_pad + g_k - VC_OFF(__CPROVER_return_value) < size)
                  ==> g_blk[g_pad + g_k] == 0);

/* recorder for the callers of (a) */
size_t g_over_n; size_t g_over_size, g_over_align, g_over_offset; bool g_over_zero; void* g_over_ret;
static void* c_overalloc_rec(mi_heap_t* const heap, const size_t size, const size_t alignment, const size_t offset, const bool zero)
__CPROVER_requires(size <= (MI_MAX_ALLOC_SIZE - MI_PADDING_SIZE) && VC_POW2(alignment))      /* call-site obligations of (a) */
__CPROVER_assigns(g_over_n, g_over_size, g_over_align, g_over_offset, g_over_zero, g_over_ret)
__CPROVER_ensures(g_over_n == __CPROVER_old(g_over_n) + 1 && g_over_size == size && g_over_align == alignment && g_over_offset == offset && g_over_zero == zero && g_over_ret == __CPROVER_return_value)
__CPROVER_ensures(__CPROVER_return_value == NULL || (((uintptr_t)__CPROVER_return_value + offset) & (alignment - 1)) == 0);

/* ---- (b) generic path: too large => NULL and nothing entered; result aligned ---- */
static void* mi_heap_malloc_zero_aligned_at_generic(mi_heap_t* const heap, const size_t size, const size_t alignment, const size_t offset, const bool zero)
__CPROVER_requires(alignment == VC_ALIGN && VC_BLK_OK && (size <= (MI_MAX_ALLOC_SIZE - MI_PADDING_SIZE) ==> g_bsize >= size))
__CPROVER_requires(g_malloc_n == 0 && g_over_n == 0 && g_free_n == 0 && g_q == NULL && g_blk == NULL)
__CPROVER_assigns(g_malloc_n, g_malloc_size, g_malloc_zero, g_malloc_halign, g_blk, g_q, g_free_n, g_free_p, g_over_n, g_over_size, g_over_align, g_over_offset, g_over_zero, g_over_ret)
__CPROVER_ensures(size > (MI_MAX_ALLOC_SIZE - MI_PADDING_SIZE) ==> (__CPROVER_return_value == NULL && g_malloc_n == 0 && g_over_n == 0))
__CPROVER_ensures(__CPROVER_return_value != NULL ==> (((uintptr_t)__CPROVER_return_value + offset) % VC_ALIGN) == 0)
/* a naturally aligned block that turns out not to be aligned is given back, not leaked */
__CPROVER_ensures((g_malloc_n == 1 && g_over_n == 1) ==> (g_free_n == 1 && g_free_p == g_q))
__CPROVER_ensures(g_over_n == 1 ==> (g_over_size == size && g_over_align == alignment && g_over_offset == offset && g_over_zero == zero && __CPROVER_return_value == g_over_ret));

/* recorder for the callers of (b) */
static void* c_generic_rec(mi_heap_t* const heap, const size_t size, const size_t alignment, const size_t offset, const bool zero)
__CPROVER_requires(VC_POW2(alignment))
__CPROVER_assigns(g_over_n, g_over_size, g_over_align, g_over_offset, g_over_zero, g_over_ret)
__CPROVER_ensures(g_over_n == __CPROVER_old(g_over_n) + 1 && g_over_size == size && g_over_align == alignment && g_over_offset == offset && g_over_zero == zero && g_over_ret == __CPROVER_return_value);

/* ---- (c) entry: zero or non-power-of-two alignment => NULL, nothing entered ---- */
static void* mi_heap_malloc_zero_aligned_at(mi_heap_t* const heap, const size_t size, const size_t alignment, const size_t offset, const bool zero)
__CPROVER_requires(size > MI_SMALL_SIZE_MAX || alignment > size || alignment == 0 || !VC_POW2(alignment))   /* the small fast path is (c2) */
__CPROVER_requires(g_over_n == 0)
__CPROVER_assigns(g_over_n, g_over_size, g_over_align, g_over_offset, g_over_zero, g_over_ret)
__CPROVER_ensures((alignment == 0 || !VC_POW2(alignment)) ==> (__CPROVER_return_value == NULL && g_over_n == 0))
__CPROVER_ensures(VC_POW2(alignment) ==> (g_over_n == 1 && g_over_size == size && g_over_align == alignment && g_over_offset == offset && g_over_zero == zero && __CPROVER_return_value == g_over_ret));

/* ---- (d) aligned re-allocation ---- */
size_t g_req_old; uint8_t g_pbyte;
size_t g_plain_n; void* g_plain_p; size_t g_plain_size; bool g_plain_zero; void* g_plain_ret;
void* _mi_heap_realloc_zero(mi_heap_t* heap, void* p, size_t newsize, bool zero)
__CPROVER_requires(1) __CPROVER_assigns(g_plain_n, g_plain_p, g_plain_size, g_plain_zero, g_plain_ret)
__CPROVER_ensures(g_plain_n == __CPROVER_old(g_plain_n) + 1 && g_plain_p == p && g_plain_size == newsize && g_plain_zero == zero && g_plain_ret == __CPROVER_return_value);
/* the aligned allocator as seen by realloc: a fresh block [g_blk+g_pad, +g_bsize), aligned as requested (contract (a)-(c)) */
size_t g_am_n, g_am_size, g_am_align, g_am_offset; bool g_am_zero;
/* (the new block is a fresh object here: equating the result with an interior pointer of a ghost object made this
   function's queries run out of memory; that the result of the aligned allocator is aligned is the contract of (a)-(c)) */
#define VC_AM_POST(zero) \
  __CPROVER_ensures(g_am_n == __CPROVER_old(g_am_n) + 1 && g_am_size == size && g_am_align == alignment && g_am_offset == offset && g_am_zero == (zero)) \
  __CPROVER_ensures(__CPROVER_return_value == NULL ? g_q == NULL : (__CPROVER_is_fresh(__CPROVER_return_value, g_bsize) && g_q == __CPROVER_return_value))
void* c_malloc_aligned_at_use(mi_heap_t* heap, size_t size, size_t alignment, size_t offset)
__CPROVER_requires(1) __CPROVER_assigns(g_am_n, g_am_size, g_am_align, g_am_offset, g_am_zero, g_q)
VC_AM_POST(false);
static void* c_malloc_zero_aligned_at_use(mi_heap_t* const heap, const size_t size, const size_t alignment, const size_t offset, const bool zero)
__CPROVER_requires(1) __CPROVER_assigns(g_am_n, g_am_size, g_am_align, g_am_offset, g_am_zero, g_q)
VC_AM_POST(zero);

#define VC_ALIGNED_AT(p, offset) ((((uintptr_t)(p) + (offset)) % VC_ALIGN) == 0)
#define VC_AINPLACE(p, newsize, offset) ((newsize) <= g_usable_old && (newsize) >= g_usable_old - g_usable_old / 2 && VC_ALIGNED_AT(p, offset))
static void* mi_heap_realloc_zero_aligned_at(mi_heap_t* heap, void* p, size_t newsize, size_t alignment, size_t offset, bool zero)
__CPROVER_requires(alignment == VC_ALIGN && VC_ALIGN > sizeof(uintptr_t))
__CPROVER_requires(g_usable_old >= 8 && g_usable_old <= ((size_t)1 << 24) && newsize <= ((size_t)1 << 24) && offset <= ((size_t)1 << 32) && g_kk < ((size_t)1 << 25))
__CPROVER_requires(__CPROVER_is_fresh(p, g_usable_old))
__CPROVER_requires(g_bsize <= ((size_t)1 << 24) && g_bsize >= newsize && g_bsize >= 8)       /* the allocator's size guarantee (C16) */
__CPROVER_requires(g_kk < g_usable_old ==> ((uint8_t*)p)[g_kk] == g_pbyte)
__CPROVER_requires(g_req_old <= g_usable_old)
__CPROVER_requires((zero && g_kk >= g_req_old && g_kk < g_usable_old) ==> ((uint8_t*)p)[g_kk] == 0)
__CPROVER_requires(g_am_n == 0 && g_free_n == 0 && g_plain_n == 0 && g_q == NULL && g_blk == NULL)
__CPROVER_assigns(g_am_n, g_am_size, g_am_align, g_am_offset, g_am_zero, g_q, g_free_n, g_free_p, g_plain_n, g_plain_p, g_plain_size, g_plain_zero, g_plain_ret)
/* never handed to the plain (unaligned) re-allocator for alignments above a word */
__CPROVER_ensures(g_plain_n == 0)
/* C03: the old pointer is returned only if it has the requested alignment */
__CPROVER_ensures(__CPROVER_return_value == p ==> VC_ALIGNED_AT(p, offset))
/* C05: in place iff it fits with at most 50% waste and is aligned; otherwise one aligned allocation of the new size with the same alignment and offset */
__CPROVER_ensures(VC_AINPLACE(p, newsize, offset) ==> (__CPROVER_return_value == p && g_am_n == 0 && g_free_n == 0))
__CPROVER_ensures(!VC_AINPLACE(p, newsize, offset) ==> (g_am_n == 1 && g_am_size == newsize && g_am_align == alignment && g_am_offset == offset && __CPROVER_return_value == g_q))
__CPROVER_ensures(__CPROVER_return_value == NULL ==> g_free_n == 0)
__CPROVER_ensures((__CPROVER_return_value != NULL && __CPROVER_return_value != p) ==> (g_free_n == 1 && g_free_p == p))
__CPROVER_ensures(g_kk < g_usable_old ==> ((uint8_t*)p)[g_kk] == g_pbyte)     /* old block never written */
/* contents: first min(old usable, new size) bytes are the old bytes */
__CPROVER_ensures((__CPROVER_return_value != NULL && g_kk < g_usable_old && g_kk < newsize) ==> ((uint8_t*)__CPROVER_return_value)[g_kk] == g_pbyte)
/* C04: zero from the previous requested size up to the usable size of the result */
__CPROVER_ensures((zero && __CPROVER_return_value != NULL && newsize >= g_req_old && g_kk >= g_req_old &&
                   g_kk < (__CPROVER_return_value == p ? g_usable_old : g_bsize)) ==> ((uint8_t*)__CPROVER_return_value)[g_kk] == 0);
#endif
