/* posix.h -- posix / BSD entry points (C06, C19): contracts on the real alloc-posix.c. Included AFTER src/alloc-posix.c. */
#ifdef VC_CBMC
#define VC_POW2(a) ((a) != 0 && (((a) & ((a)-1)) == 0))
size_t g_am_n, g_am_size, g_am_align; void* g_am_ret;      /* recorder of mi_malloc_aligned */
void* mi_malloc_aligned(size_t size, size_t alignment)
__CPROVER_requires(1) __CPROVER_assigns(g_am_n, g_am_size, g_am_align, g_am_ret)
__CPROVER_ensures(g_am_n == __CPROVER_old(g_am_n) + 1 && g_am_size == size && g_am_align == alignment && g_am_ret == __CPROVER_return_value);
size_t g_rn_n, g_rn_count, g_rn_size; void* g_rn_p; void* g_rn_ret;  /* recorder of mi_reallocn */
void* mi_reallocn(void* p, size_t count, size_t size)
__CPROVER_requires(1) __CPROVER_assigns(g_rn_n, g_rn_count, g_rn_size, g_rn_p, g_rn_ret)
__CPROVER_ensures(g_rn_n == __CPROVER_old(g_rn_n) + 1 && g_rn_p == p && g_rn_count == count && g_rn_size == size && g_rn_ret == __CPROVER_return_value);
size_t g_os_page_size;
size_t _mi_os_page_size(void)
__CPROVER_requires(1) __CPROVER_assigns() __CPROVER_ensures(__CPROVER_return_value == g_os_page_size);
int g_errno0;

void* g_out0;   /* logical: *p before the call */
int mi_posix_memalign(void** p, size_t alignment, size_t size)
__CPROVER_requires(p == NULL || (__CPROVER_is_fresh(p, sizeof(void*)) && *p == g_out0))
__CPROVER_requires(g_am_n == 0)
__CPROVER_assigns(g_am_n, g_am_size, g_am_align, g_am_ret; p != NULL: *p)
/* EINVAL for a NULL out-parameter, an alignment that is not a multiple of sizeof(void*), zero, or not a power of two: nothing allocated */
__CPROVER_ensures((p == NULL || (alignment % sizeof(void*)) != 0 || !VC_POW2(alignment)) ==> (__CPROVER_return_value == EINVAL && g_am_n == 0))
__CPROVER_ensures((p != NULL && (alignment % sizeof(void*)) == 0 && VC_POW2(alignment)) ==> (g_am_n == 1 && g_am_size == size && g_am_align == alignment))
/* ENOMEM when the allocation fails for a non-zero size */
__CPROVER_ensures((g_am_n == 1 && g_am_ret == NULL && size != 0) ==> __CPROVER_return_value == ENOMEM)
__CPROVER_ensures((g_am_n == 1 && (g_am_ret != NULL || size == 0)) ==> (__CPROVER_return_value == 0 && *p == g_am_ret))
/* the out-parameter is written only on success */
__CPROVER_ensures((p != NULL && __CPROVER_return_value != 0) ==> *p == g_out0);

void* mi_pvalloc(size_t size)
__CPROVER_requires(VC_POW2(g_os_page_size) && g_os_page_size >= 4096 && g_os_page_size <= ((size_t)1 << 30) && g_am_n == 0)
__CPROVER_assigns(g_am_n, g_am_size, g_am_align, g_am_ret)
/* a size that cannot be rounded up to a page without wrapping fails cleanly */
__CPROVER_ensures(size > SIZE_MAX - g_os_page_size ==> (__CPROVER_return_value == NULL && g_am_n == 0))
/* otherwise: one page-aligned allocation of the size rounded up to whole pages (never less than requested) */
__CPROVER_ensures(g_am_n == 1 ==> (g_am_align == g_os_page_size && g_am_size >= size && g_am_size - size < g_os_page_size && (g_am_size & (g_os_page_size - 1)) == 0 && __CPROVER_return_value == g_am_ret))
__CPROVER_ensures(g_am_n <= 1);

void* mi_valloc(size_t size)
__CPROVER_requires(g_am_n == 0) __CPROVER_assigns(g_am_n, g_am_size, g_am_align, g_am_ret)
__CPROVER_ensures(g_am_n == 1 && g_am_size == size && g_am_align == g_os_page_size && __CPROVER_return_value == g_am_ret);
void* mi_memalign(size_t alignment, size_t size)
__CPROVER_requires(g_am_n == 0) __CPROVER_assigns(g_am_n, g_am_size, g_am_align, g_am_ret)
__CPROVER_ensures(g_am_n == 1 && g_am_size == size && g_am_align == alignment && __CPROVER_return_value == g_am_ret);
void* mi_aligned_alloc(size_t alignment, size_t size)
__CPROVER_requires(g_am_n == 0) __CPROVER_assigns(g_am_n, g_am_size, g_am_align, g_am_ret)
__CPROVER_ensures(g_am_n == 1 && g_am_size == size && g_am_align == alignment && __CPROVER_return_value == g_am_ret);

void* mi_reallocarray(void* p, size_t count, size_t size)
__CPROVER_requires(g_rn_n == 0 && errno == g_errno0)
__CPROVER_assigns(g_rn_n, g_rn_count, g_rn_size, g_rn_p, g_rn_ret, errno)
__CPROVER_ensures(g_rn_n == 1 && g_rn_p == p && g_rn_count == count && g_rn_size == size && __CPROVER_return_value == g_rn_ret)
__CPROVER_ensures(__CPROVER_return_value == NULL ==> errno == ENOMEM)
__CPROVER_ensures(__CPROVER_return_value != NULL ==> errno == g_errno0);

void* g_slot0;
int mi_reallocarr(void* p, size_t count, size_t size)
__CPROVER_requires(p == NULL || (__CPROVER_is_fresh(p, sizeof(void*)) && *(void**)p == g_slot0))
__CPROVER_requires(g_rn_n == 0)
__CPROVER_assigns(g_rn_n, g_rn_count, g_rn_size, g_rn_p, g_rn_ret, errno; p != NULL: *(void**)p)
__CPROVER_ensures(p == NULL ==> (__CPROVER_return_value == EINVAL && errno == EINVAL && g_rn_n == 0))
__CPROVER_ensures(p != NULL ==> (g_rn_n == 1 && g_rn_p == g_slot0 && g_rn_count == count && g_rn_size == size))
__CPROVER_ensures((p != NULL && g_rn_ret == NULL) ==> (__CPROVER_return_value == ENOMEM && errno == ENOMEM && *(void**)p == g_slot0))
__CPROVER_ensures((p != NULL && g_rn_ret != NULL) ==> (__CPROVER_return_value == 0 && *(void**)p == g_rn_ret));
#endif
