/* seg_alloc.h -- obtaining a segment from the arena/OS layer (C07). Included AFTER src/segment.c; SCALED (one mask word). */
#ifdef VC_CBMC
mi_segment_t* g_newseg; bool g_aa_committed; bool g_aa_pinned; size_t g_aa_n, g_aa_size, g_aa_align, g_aa_offset; bool g_aa_commit_arg;
size_t g_af_n; void* g_af_p; size_t g_af_size, g_af_committed;
size_t g_track_n, g_map_n2;
bool g_oscommit_ret2; size_t g_oscommit_n2; void* g_oscommit_p2; size_t g_oscommit_size2;
void* _mi_arena_alloc_aligned(size_t size, size_t alignment, size_t align_offset, bool commit, bool allow_large, mi_arena_id_t req_arena_id, mi_memid_t* memid)
__CPROVER_requires(__CPROVER_w_ok(memid, sizeof(*memid)))
__CPROVER_assigns(*memid, g_newseg, g_aa_n, g_aa_size, g_aa_align, g_aa_offset, g_aa_commit_arg)
__CPROVER_ensures(g_aa_n == __CPROVER_old(g_aa_n) + 1 && g_aa_size == size && g_aa_align == alignment && g_aa_offset == align_offset && !g_aa_commit_arg == !commit)
/* (g_newseg is only compared, never dereferenced: a ghost that was merely equated with the result has no provenance) */
__CPROVER_ensures(__CPROVER_return_value == NULL ? g_newseg == NULL : (__CPROVER_is_fresh(__CPROVER_return_value, sizeof(mi_segment_t)) && g_newseg == __CPROVER_return_value &&
                  !memid->initially_committed == !g_aa_committed && !memid->is_pinned == !g_aa_pinned && memid->memkind == MI_MEM_ARENA));
bool c_os_commit_rec2(void* p, size_t size, bool* is_zero)
__CPROVER_requires(is_zero == NULL) __CPROVER_assigns(g_oscommit_n2, g_oscommit_p2, g_oscommit_size2)
__CPROVER_ensures(g_oscommit_n2 == __CPROVER_old(g_oscommit_n2) + 1 && g_oscommit_p2 == p && g_oscommit_size2 == size && __CPROVER_return_value == g_oscommit_ret2);
void _mi_arena_free(void* p, size_t size, size_t committed_size, mi_memid_t memid)
__CPROVER_requires(1) __CPROVER_assigns(g_af_n, g_af_p, g_af_size, g_af_committed)
__CPROVER_ensures(g_af_n == __CPROVER_old(g_af_n) + 1 && g_af_p == p && g_af_size == size && g_af_committed == committed_size);
static void mi_segments_track_size(long segment_size, mi_segments_tld_t* tld)
__CPROVER_requires(1) __CPROVER_assigns(g_track_n) __CPROVER_ensures(g_track_n == __CPROVER_old(g_track_n) + 1);
void _mi_segment_map_allocated_at(const mi_segment_t* segment)
__CPROVER_requires(1) __CPROVER_assigns(g_map_n2) __CPROVER_ensures(g_map_n2 == __CPROVER_old(g_map_n2) + 1);

size_t g_slices0, g_info0;
static mi_segment_t* mi_segment_os_alloc(size_t required, size_t page_alignment, bool eager_delayed, mi_arena_id_t req_arena_id,
                                          size_t* psegment_slices, size_t* pinfo_slices, bool commit, mi_segments_tld_t* tld)
__CPROVER_requires(page_alignment == 0)          /* (the over-aligned huge path recomputes the slice counts; its own contract is C03) */
__CPROVER_requires(__CPROVER_is_fresh(psegment_slices, sizeof(size_t)) && __CPROVER_is_fresh(pinfo_slices, sizeof(size_t)) && __CPROVER_is_fresh(tld, sizeof(*tld)))
__CPROVER_requires(*psegment_slices == g_slices0 && *pinfo_slices == g_info0 && g_info0 >= 1 && g_info0 <= 3 && g_slices0 > g_info0 && g_slices0 <= ((size_t)1 << 20))
__CPROVER_requires(required == 0 ? g_slices0 == MI_SLICES_PER_SEGMENT : g_slices0 * MI_SEGMENT_SLICE_SIZE >= required)
__CPROVER_requires(g_aa_n == 0 && g_af_n == 0 && g_track_n == 0 && g_map_n2 == 0 && g_oscommit_n2 == 0)
__CPROVER_assigns(g_newseg, g_aa_n, g_aa_size, g_aa_align, g_aa_offset, g_aa_commit_arg, g_af_n, g_af_p, g_af_size, g_af_committed, g_track_n, g_map_n2, g_oscommit_n2, g_oscommit_p2, g_oscommit_size2)
__CPROVER_ensures(g_aa_n == 1 && g_aa_size == g_slices0 * MI_SEGMENT_SLICE_SIZE)
/* the arena/OS layer has no memory: NULL, nothing else happens */
__CPROVER_ensures(g_newseg == NULL ==> (__CPROVER_return_value == NULL && g_af_n == 0 && g_track_n == 0 && g_oscommit_n2 == 0))
/* memory that is already committed needs no commit */
__CPROVER_ensures((g_newseg != NULL && g_aa_committed) ==> (g_oscommit_n2 == 0 && __CPROVER_return_value == g_newseg && __CPROVER_return_value->commit_mask.mask[0] == ~(size_t)0))
/* C07: otherwise the segment info (normal segment) or the WHOLE segment (huge segment: its pages are never committed on demand) is
   committed now; if the OS refuses, the block goes back to the arena exactly once, NULL is returned and the thread's counters are untouched */
__CPROVER_ensures((g_newseg != NULL && !g_aa_committed) ==> (g_oscommit_n2 == 1 && g_oscommit_p2 == g_newseg &&
     (required > 0 ? g_oscommit_size2 == g_slices0 * MI_SEGMENT_SLICE_SIZE : g_oscommit_size2 >= g_info0 * MI_SEGMENT_SLICE_SIZE)))
__CPROVER_ensures((g_newseg != NULL && !g_aa_committed && !g_oscommit_ret2) ==> (__CPROVER_return_value == NULL && g_af_n == 1 && g_af_p == g_newseg &&
     g_af_size == g_slices0 * MI_SEGMENT_SLICE_SIZE && g_af_committed == 0 && g_track_n == 0 && g_map_n2 == 0))
__CPROVER_ensures((g_newseg != NULL && !g_aa_committed && g_oscommit_ret2) ==> (__CPROVER_return_value == g_newseg && g_af_n == 0))
/* a huge segment that is handed out is fully committed ("handed out => committed") */
__CPROVER_ensures((__CPROVER_return_value != NULL && required > 0) ==> __CPROVER_return_value->commit_mask.mask[0] == ~(size_t)0)
/* a normal segment: at least the info slices are committed, nothing is pending */
__CPROVER_ensures((__CPROVER_return_value != NULL && required == 0 && !g_aa_committed) ==> ((__CPROVER_return_value->commit_mask.mask[0] & (((size_t)1 << g_info0) - 1)) == (((size_t)1 << g_info0) - 1)))
__CPROVER_ensures(__CPROVER_return_value != NULL ==> (__CPROVER_return_value->purge_mask.mask[0] == 0 && __CPROVER_return_value->purge_expire == 0 && __CPROVER_return_value->segment_size == g_slices0 * MI_SEGMENT_SLICE_SIZE &&
     g_track_n == 1 && g_map_n2 == 1 && !__CPROVER_return_value->allow_decommit == !!g_aa_pinned));
#endif

#ifdef VC_CBMC
/* ================= giving a segment back (C11) ================= */
int g_af_kind; int g_af_arena_id; size_t g_af_block_index; long g_track_amount; size_t g_mapfreed_n; const mi_segment_t* g_mapfreed_p;
void c_arena_free_rec2(void* p, size_t size, size_t committed_size, mi_memid_t memid)
__CPROVER_requires(1) __CPROVER_assigns(g_af_n, g_af_p, g_af_size, g_af_committed, g_af_kind, g_af_arena_id, g_af_block_index)
__CPROVER_ensures(g_af_n == __CPROVER_old(g_af_n) + 1 && g_af_p == p && g_af_size == size && g_af_committed == committed_size)
__CPROVER_ensures(g_af_kind == (int)memid.memkind && g_af_arena_id == memid.mem.arena.id && g_af_block_index == memid.mem.arena.block_index);
static void c_track_size_rec2(long segment_size, mi_segments_tld_t* tld)
__CPROVER_requires(1) __CPROVER_assigns(g_track_n, g_track_amount) __CPROVER_ensures(g_track_n == __CPROVER_old(g_track_n) + 1 && g_track_amount == segment_size);
void _mi_segment_map_freed_at(const mi_segment_t* segment)
__CPROVER_requires(1) __CPROVER_assigns(g_mapfreed_n, g_mapfreed_p) __CPROVER_ensures(g_mapfreed_n == __CPROVER_old(g_mapfreed_n) + 1 && g_mapfreed_p == segment);
size_t g_rc0;
#define VC_SEGSIZE(s) ((size_t)(s)->segment_slices * MI_SEGMENT_SLICE_SIZE)
/* the whole segment -- exactly its own (base, size, memid) -- goes back to the arena layer exactly once, with a committed size that never
   exceeds the size and equals it when everything is committed; the owner id is cleared first so that no late free reaches it */
static void mi_segment_os_free(mi_segment_t* segment, mi_segments_tld_t* tld)
__CPROVER_requires(__CPROVER_is_fresh(segment, sizeof(mi_segment_t)) && __CPROVER_is_fresh(tld, sizeof(mi_segments_tld_t)) && segment->segment_slices >= 1 && segment->segment_slices <= ((size_t)1 << 20))
__CPROVER_requires(g_af_n == 0 && g_track_n == 0 && g_mapfreed_n == 0 && tld->reclaim_count == g_rc0 && (segment->was_reclaimed ==> g_rc0 >= 1))
__CPROVER_assigns(segment->thread_id, segment->was_reclaimed, tld->reclaim_count, g_af_n, g_af_p, g_af_size, g_af_committed, g_af_kind, g_af_arena_id, g_af_block_index, g_track_n, g_track_amount, g_mapfreed_n, g_mapfreed_p)
__CPROVER_ensures(g_af_n == 1 && g_af_p == segment && g_af_size == VC_SEGSIZE(segment) && g_af_committed <= g_af_size)
__CPROVER_ensures(segment->commit_mask.mask[0] == ~(size_t)0 ==> g_af_committed == g_af_size)
__CPROVER_ensures(g_af_kind == (int)segment->memid.memkind && g_af_arena_id == segment->memid.mem.arena.id && g_af_block_index == segment->memid.mem.arena.block_index)
__CPROVER_ensures(segment->thread_id == 0 && g_mapfreed_n == 1 && g_mapfreed_p == segment && g_track_n == 1 && g_track_amount == -(long)VC_SEGSIZE(segment))
__CPROVER_ensures(!segment->was_reclaimed && tld->reclaim_count == g_rc0 - (__CPROVER_old(segment->was_reclaimed) ? 1 : 0));
/* mi_segments_track_size against its specification (ENFORCED on the real segment.c, pair track_size; the pairs above use it as a recorder):
   the thread's segment accounting moves by exactly one segment and exactly the size given (negative = a segment given back), peaks never
   drop and dominate the current values, nothing else in the tld changes (frame). size_t arithmetic is modular, as in the code. */
size_t g_cnt0, g_cur0, g_pkc0, g_pks0;
static void c_track_size_spec(long segment_size, mi_segments_tld_t* tld)
__CPROVER_requires(__CPROVER_is_fresh(tld, sizeof(*tld)) && tld->count == g_cnt0 && tld->current_size == g_cur0 && tld->peak_count == g_pkc0 && tld->peak_size == g_pks0)
__CPROVER_assigns(tld->count, tld->peak_count, tld->current_size, tld->peak_size)
__CPROVER_ensures(tld->count == (segment_size >= 0 ? g_cnt0 + 1 : g_cnt0 - 1) && tld->current_size == g_cur0 + (size_t)segment_size)
__CPROVER_ensures(tld->peak_count == (tld->count > g_pkc0 ? tld->count : g_pkc0) && tld->peak_size == (tld->current_size > g_pks0 ? tld->current_size : g_pks0));
#endif
