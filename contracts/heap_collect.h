/* mi_heap_collect_ex (heap.c): which steps a collection performs, with which force flags, and in which order.  Every callee is a recorder that
   stamps a ghost clock (0 = not called).  C09: on abandonment every page stops taking delayed frees BEFORE the delayed list is drained, and all
   pages are collected; C15: abandoned segments are adopted wholesale only by a forced collect of the main thread's backing heap that may reclaim;
   C18/C13: purges are forced only by MI_FORCE. */
#ifdef VC_CBMC
size_t g_clk;
size_t g_o_deferred, g_o_reclaim_all, g_o_never, g_o_dfall, g_o_retired, g_o_collect, g_o_abcollect, g_o_tdcollect, g_o_arenas, g_o_merge;
bool g_f_deferred, g_f_retired, g_f_abcollect, g_f_arenas; bool g_is_main; size_t g_tid; int g_collect_arg;
void c_cx_deferred(mi_heap_t* heap, bool force) __CPROVER_requires(1) __CPROVER_assigns(g_clk, g_o_deferred, g_f_deferred)
__CPROVER_ensures(g_clk == __CPROVER_old(g_clk) + 1 && g_o_deferred == g_clk && !g_f_deferred == !force);
bool c_cx_is_main(void) __CPROVER_requires(1) __CPROVER_assigns() __CPROVER_ensures(!__CPROVER_return_value == !g_is_main);
static inline mi_threadid_t c_cx_thread_id(void) __CPROVER_requires(1) __CPROVER_assigns() __CPROVER_ensures(__CPROVER_return_value == g_tid);
void c_cx_reclaim_all(mi_heap_t* heap, mi_segments_tld_t* tld) __CPROVER_requires(1) __CPROVER_assigns(g_clk, g_o_reclaim_all)
__CPROVER_ensures(g_clk == __CPROVER_old(g_clk) + 1 && g_o_reclaim_all == g_clk);
/* mi_heap_visit_pages(heap, fn, arg1, arg2): which visitor is told apart by arg1 (NULL for the never-delayed marking, &collect for the page collection) */
static bool c_cx_visit(mi_heap_t* heap, heap_page_visitor_fun* fn, void* arg1, void* arg2) __CPROVER_requires(1) __CPROVER_assigns(g_clk, g_o_never, g_o_collect, g_collect_arg)
__CPROVER_ensures(g_clk == __CPROVER_old(g_clk) + 1)
__CPROVER_ensures(arg1 == NULL ? (g_o_never == g_clk && g_o_collect == __CPROVER_old(g_o_collect)) : (g_o_collect == g_clk && g_o_never == __CPROVER_old(g_o_never) && g_collect_arg == (int)*(mi_collect_t*)arg1));
void c_cx_dfall(mi_heap_t* heap) __CPROVER_requires(1) __CPROVER_assigns(g_clk, g_o_dfall) __CPROVER_ensures(g_clk == __CPROVER_old(g_clk) + 1 && g_o_dfall == g_clk);
void c_cx_retired(mi_heap_t* heap, bool force) __CPROVER_requires(1) __CPROVER_assigns(g_clk, g_o_retired, g_f_retired)
__CPROVER_ensures(g_clk == __CPROVER_old(g_clk) + 1 && g_o_retired == g_clk && !g_f_retired == !force);
void c_cx_abcollect(mi_heap_t* heap, bool force, mi_segments_tld_t* tld) __CPROVER_requires(1) __CPROVER_assigns(g_clk, g_o_abcollect, g_f_abcollect)
__CPROVER_ensures(g_clk == __CPROVER_old(g_clk) + 1 && g_o_abcollect == g_clk && !g_f_abcollect == !force);
void c_cx_tdcollect(void) __CPROVER_requires(1) __CPROVER_assigns(g_clk, g_o_tdcollect) __CPROVER_ensures(g_clk == __CPROVER_old(g_clk) + 1 && g_o_tdcollect == g_clk);
void c_cx_arenas(bool force_purge) __CPROVER_requires(1) __CPROVER_assigns(g_clk, g_o_arenas, g_f_arenas)
__CPROVER_ensures(g_clk == __CPROVER_old(g_clk) + 1 && g_o_arenas == g_clk && !g_f_arenas == !force_purge);
void c_cx_merge(void) __CPROVER_requires(1) __CPROVER_assigns(g_clk, g_o_merge) __CPROVER_ensures(g_clk == __CPROVER_old(g_clk) + 1 && g_o_merge == g_clk);

#define VC_FORCE_MAIN(heap, collect) ((collect) == MI_FORCE && g_is_main && (heap)->thread_id == g_tid && (heap)->tld->heap_backing == (heap) && !(heap)->no_reclaim)
static void mi_heap_collect_ex(mi_heap_t* heap, mi_collect_t collect)
__CPROVER_requires(__CPROVER_is_fresh(heap, sizeof(mi_heap_t)) && __CPROVER_is_fresh(heap->tld, sizeof(mi_tld_t)) && (collect == MI_NORMAL || collect == MI_FORCE || collect == MI_ABANDON))
__CPROVER_requires(g_clk == 0 && g_o_deferred == 0 && g_o_reclaim_all == 0 && g_o_never == 0 && g_o_dfall == 0 && g_o_retired == 0 && g_o_collect == 0 && g_o_abcollect == 0 && g_o_tdcollect == 0 && g_o_arenas == 0 && g_o_merge == 0)
__CPROVER_assigns(g_clk, g_o_deferred, g_o_reclaim_all, g_o_never, g_o_dfall, g_o_retired, g_o_collect, g_o_abcollect, g_o_tdcollect, g_o_arenas, g_o_merge, g_f_deferred, g_f_retired, g_f_abcollect, g_f_arenas, g_collect_arg)
/* always: drain the delayed frees, look at retired pages, collect every page, then the abandoned segments and the arenas -- in this order */
__CPROVER_ensures(g_o_deferred == 1 && g_o_dfall > 0 && g_o_retired > g_o_dfall && g_o_collect > g_o_retired && g_o_abcollect > g_o_collect && g_o_arenas > g_o_abcollect && g_collect_arg == (int)collect)
__CPROVER_ensures(!g_f_deferred == !(collect >= MI_FORCE) && !g_f_retired == !(collect >= MI_FORCE))
/* C18/C13: abandoned segments and arenas are purged with force only by an explicit forced collect, never by thread termination */
__CPROVER_ensures(!g_f_abcollect == !(collect == MI_FORCE) && !g_f_arenas == !(collect == MI_FORCE))
/* C09: on abandonment all pages stop accepting delayed frees before the delayed list is drained (so it stays empty afterwards) */
__CPROVER_ensures(collect == MI_ABANDON ? (g_o_never > 0 && g_o_never < g_o_dfall) : g_o_never == 0)
/* C15: wholesale adoption of abandoned segments only for a forced collect on the main thread's own backing heap that may reclaim */
__CPROVER_ensures(VC_FORCE_MAIN(heap, collect) ? (g_o_reclaim_all > 0 && g_o_reclaim_all < g_o_dfall) : g_o_reclaim_all == 0)
__CPROVER_ensures(((collect >= MI_FORCE) && g_is_main && heap->thread_id == g_tid && heap->tld->heap_backing == heap) ? g_o_tdcollect > 0 : g_o_tdcollect == 0)
__CPROVER_ensures((collect <= MI_FORCE) ? g_o_merge > 0 : g_o_merge == 0);
#endif

#ifdef VC_CBMC
/* ---- the per-page step of a collection (C09: a page that still holds live blocks is never freed; on thread exit it is abandoned) ---- */
mi_page_t* g_cpage; mi_page_queue_t* g_cpq; uint16_t g_used_after;      /* logical: the page's used count after its free lists were collected */
size_t g_pfc_n; bool g_pfc_force; size_t g_segc_n; bool g_segc_force; size_t g_segc_at_free;
size_t g_cpf_n; mi_page_t* g_cpf_p; mi_page_queue_t* g_cpf_q; bool g_cpf_force; size_t g_cab_n; mi_page_t* g_cab_p; mi_page_queue_t* g_cab_q;
void c_pc_free_collect(mi_page_t* page, bool force) __CPROVER_requires(page == g_cpage) __CPROVER_assigns(g_pfc_n, g_pfc_force, g_cpage->used)
__CPROVER_ensures(g_pfc_n == __CPROVER_old(g_pfc_n) + 1 && !g_pfc_force == !force && g_cpage->used == g_used_after);
void c_pc_segment_collect(mi_segment_t* segment, bool force) __CPROVER_requires(1) __CPROVER_assigns(g_segc_n, g_segc_force)
__CPROVER_ensures(g_segc_n == __CPROVER_old(g_segc_n) + 1 && !g_segc_force == !force);
void c_pc_page_free(mi_page_t* page, mi_page_queue_t* pq, bool force) __CPROVER_requires(page->used == 0 /* call-site obligation: only empty pages are freed */)
__CPROVER_assigns(g_cpf_n, g_cpf_p, g_cpf_q, g_cpf_force, g_segc_at_free)
__CPROVER_ensures(g_cpf_n == __CPROVER_old(g_cpf_n) + 1 && g_cpf_p == page && g_cpf_q == pq && !g_cpf_force == !force && g_segc_at_free == g_segc_n);
void c_pc_page_abandon(mi_page_t* page, mi_page_queue_t* pq) __CPROVER_requires(1) __CPROVER_assigns(g_cab_n, g_cab_p, g_cab_q)
__CPROVER_ensures(g_cab_n == __CPROVER_old(g_cab_n) + 1 && g_cab_p == page && g_cab_q == pq);
static bool mi_heap_page_collect(mi_heap_t* heap, mi_page_queue_t* pq, mi_page_t* page, void* arg_collect, void* arg2)
__CPROVER_requires(page == g_cpage && pq == g_cpq && __CPROVER_r_ok(arg_collect, sizeof(mi_collect_t)) && g_pfc_n == 0 && g_segc_n == 0 && g_cpf_n == 0 && g_cab_n == 0)
__CPROVER_requires(*(mi_collect_t*)arg_collect == MI_NORMAL || *(mi_collect_t*)arg_collect == MI_FORCE || *(mi_collect_t*)arg_collect == MI_ABANDON)
__CPROVER_assigns(g_pfc_n, g_pfc_force, g_cpage->used, g_segc_n, g_segc_force, g_cpf_n, g_cpf_p, g_cpf_q, g_cpf_force, g_segc_at_free, g_cab_n, g_cab_p, g_cab_q)
__CPROVER_ensures(g_pfc_n == 1 && !g_pfc_force == !(*(mi_collect_t*)arg_collect >= MI_FORCE) && __CPROVER_return_value)
/* empty after collecting its free lists => freed (from its own queue); a forced collect purges the segment first, because freeing the page may free the segment */
__CPROVER_ensures(g_used_after == 0 ==> (g_cpf_n == 1 && g_cpf_p == page && g_cpf_q == pq && !g_cpf_force == !(*(mi_collect_t*)arg_collect >= MI_FORCE) && g_cab_n == 0))
__CPROVER_ensures(*(mi_collect_t*)arg_collect == MI_FORCE ? (g_segc_n == 1 && g_segc_force && (g_cpf_n == 1 ==> g_segc_at_free == 1)) : g_segc_n == 0)
/* C09: a page that still holds live blocks is never freed; when the thread is done it is abandoned, exactly once, otherwise it simply stays */
__CPROVER_ensures(g_used_after != 0 ==> (g_cpf_n == 0 && g_cab_n == (*(mi_collect_t*)arg_collect == MI_ABANDON ? 1 : 0) && (g_cab_n == 1 ==> (g_cab_p == page && g_cab_q == pq))));
#endif
