/* mi_heap_collect_ex (heap.c): which steps a collection performs, with which force flags, and in which order.  Every callee is a recorder that
   stamps a ghost clock (0 = not called).  C09: on abandonment every page stops taking delayed frees BEFORE the delayed list is drained, and all
   pages are collected; C15: abandoned segments are adopted wholesale only by a forced collect of the main thread's backing heap that may reclaim;
   C18/C13: purges are forced only by MI_FORCE. */
#ifdef VC_CBMC
size_t g_clk;
size_t g_o_deferred, g_o_reclaim_all, g_o_never, g_o_dfall, g_o_retired, g_o_collect, g_o_abcollect, g_o_tdcollect, g_o_arenas, g_o_merge;
bool g_f_deferred, g_f_retired, g_f_abcollect, g_f_arenas; bool g_is_main; size_t g_tid; int g_collect_arg;
void c_cx_deferred(mi_heap_t* heap, bool force) __CPROVER_requires(1) __CPROVER_assigns(g_clk, g_o_deferred, g_f_deferred)
__CPROVER_ensures(g_clk == __CPROVER_old(g_clk) + 1 && g_o_deferred == g_clk && !g_f_deferred == !force);
bool c_cx_is_main(void) __CPROVER_requires(1) __CPROVER_assigns() __CPROVER_ensures(!__CPROVER_return_value == !g_is_main);
static inline mi_threadid_t c_cx_thread_id(void) __CPROVER_requires(1) __CPROVER_assigns() __CPROVER_ensures(__CPROVER_return_value == g_tid);
void c_cx_reclaim_all(mi_heap_t* heap, mi_segments_tld_t* tld) __CPROVER_requires(1) __CPROVER_assigns(g_clk, g_o_reclaim_all)
__CPROVER_ensures(g_clk == __CPROVER_old(g_clk) + 1 && g_o_reclaim_all == g_clk);
/* mi_heap_visit_pages(heap, fn, arg1, arg2): which visitor is told apart by arg1 (NULL for the never-delayed marking, &collect for the page collection) */
static bool c_cx_visit(mi_heap_t* heap, heap_page_visitor_fun* fn, void* arg1, void* arg2) __CPROVER_requires(1) __CPROVER_assigns(g_clk, g_o_never, g_o_collect, g_collect_arg)
__CPROVER_ensures(g_clk == __CPROVER_old(g_clk) + 1)
__CPROVER_ensures(arg1 == NULL ? (g_o_never == g_clk && g_o_collect == __CPROVER_old(g_o_collect)) : (g_o_collect == g_clk && g_o_never == __CPROVER_old(g_o_never) && g_collect_arg == (int)*(mi_collect_t*)arg1));
void c_cx_dfall(mi_heap_t* heap) __CPROVER_requires(1) __CPROVER_assigns(g_clk, g_o_dfall) __CPROVER_ensures(g_clk == __CPROVER_old(g_clk) + 1 && g_o_dfall == g_clk);
void c_cx_retired(mi_heap_t* heap, bool force) __CPROVER_requires(1) __CPROVER_assigns(g_clk, g_o_retired, g_f_retired)
__CPROVER_ensures(g_clk == __CPROVER_old(g_clk) + 1 && g_o_retired == g_clk && !g_f_retired == !force);
void c_cx_abcollect(mi_heap_t* heap, bool force, mi_segments_tld_t* tld) __CPROVER_requires(1) __CPROVER_assigns(g_clk, g_o_abcollect, g_f_abcollect)
__CPROVER_ensures(g_clk == __CPROVER_old(g_clk) + 1 && g_o_abcollect == g_clk && !g_f_abcollect == !force);
void c_cx_tdcollect(void) __CPROVER_requires(1) __CPROVER_assigns(g_clk, g_o_tdcollect) __CPROVER_ensures(g_clk == __CPROVER_old(g_clk) + 1 && g_o_tdcollect == g_clk);
void c_cx_arenas(bool force_purge) __CPROVER_requires(1) __CPROVER_assigns(g_clk, g_o_arenas, g_f_arenas)
__CPROVER_ensures(g_clk == __CPROVER_old(g_clk) + 1 && g_o_arenas == g_clk && !g_f_arenas == !force_purge);
void c_cx_merge(void) __CPROVER_requires(1) __CPROVER_assigns(g_clk, g_o_merge) __CPROVER_ensures(g_clk == __CPROVER_old(g_clk) + 1 && g_o_merge == g_clk);

#define VC_FORCE_MAIN(heap, collect) ((collect) == MI_FORCE && g_is_main && (heap)->thread_id == g_tid && (heap)->tld->heap_backing == (heap) && !(heap)->no_reclaim)
static void mi_heap_collect_ex(mi_heap_t* heap, mi_collect_t collect)
__CPROVER_requires(__CPROVER_is_fresh(heap, sizeof(mi_heap_t)) && __CPROVER_is_fresh(heap->tld, sizeof(mi_tld_t)) && (collect == MI_NORMAL || collect == MI_FORCE || collect == MI_ABANDON))
__CPROVER_requires(g_clk == 0 && g_o_deferred == 0 && g_o_reclaim_all == 0 && g_o_never == 0 && g_o_dfall == 0 && g_o_retired == 0 && g_o_collect == 0 && g_o_abcollect == 0 && g_o_tdcollect == 0 && g_o_arenas == 0 && g_o_merge == 0)
__CPROVER_assigns(g_clk, g_o_deferred, g_o_reclaim_all, g_o_never, g_o_dfall, g_o_retired, g_o_collect, g_o_abcollect, g_o_tdcollect, g_o_arenas, g_o_merge, g_f_deferred, g_f_retired, g_f_abcollect, g_f_arenas, g_collect_arg)
/* always: drain the delayed frees, look at retired pages, collect every page, then the abandoned segments and the arenas -- in this order */
__CPROVER_ensures(g_o_deferred == 1 && g_o_dfall > 0 && g_o_retired > g_o_dfall && g_o_collect > g_o_retired && g_o_abcollect > g_o_collect && g_o_arenas > g_o_abcollect && g_collect_arg == (int)collect)
__CPROVER_ensures(!g_f_deferred == !(collect >= MI_FORCE) && !g_f_retired == !(collect >= MI_FORCE))
/* C18/C13: abandoned segments and arenas are purged with force only by an explicit forced collect, never by thread termination */
__CPROVER_ensures(!g_f_abcollect == !(collect == MI_FORCE) && !g_f_arenas == !(collect == MI_FORCE))
/* C09: on abandonment all pages stop accepting delayed frees before the delayed list is drained (so it stays empty afterwards) */
__CPROVER_ensures(collect == MI_ABANDON ? (g_o_never > 0 && g_o_never < g_o_dfall) : g_o_never == 0)
/* C15: wholesale adoption of abandoned segments only for a forced collect on the main thread's own backing heap that may reclaim */
__CPROVER_ensures(VC_FORCE_MAIN(heap, collect) ? (g_o_reclaim_all > 0 && g_o_reclaim_all < g_o_dfall) : g_o_reclaim_all == 0)
__CPROVER_ensures(((collect >= MI_FORCE) && g_is_main && heap->thread_id == g_tid && heap->tld->heap_backing == heap) ? g_o_tdcollect > 0 : g_o_tdcollect == 0)
__CPROVER_ensures((collect <= MI_FORCE) ? g_o_merge > 0 : g_o_merge == 0);
#endif
