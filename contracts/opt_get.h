/* opt_get.h -- the option getters that every other harness uses as ASSUMED contracts over the logical array g_opt (contracts/stubs.h),
   here ENFORCED on the real options.c (C13: the guarantees are proved for every value of g_opt; this ties g_opt to the option table).
   Included after src/options.c (the table `options` and UNINIT are file-static there). */
#ifdef VC_CBMC
/* the option table entry of an in-range option is its own descriptor (static table, checked natively by mi_assert in debug builds) and,
   once initialised, holds the value the logical array names */
#define VC_OPT_BOUND(o) (options[o].option == (mi_option_t)(o) && (options[o].init != UNINIT ==> options[o].value == g_opt[o]))
/* lazy initialisation from the environment (its memory safety for every environment string is C20, pairs opt_sym_*): here only its frame
   and that the value it leaves IS the option's value from then on */
static void c_option_init_rec(mi_option_desc_t* desc)
__CPROVER_requires(__CPROVER_w_ok(desc, sizeof(*desc)) && desc->option >= 0 && desc->option < _mi_option_last)
__CPROVER_assigns(desc->value, desc->init)
__CPROVER_ensures(desc->init != UNINIT && desc->value == g_opt[desc->option]);
/* mi_option_get: out of range => 0 and nothing touched; in range => the option's value, the table entry initialised afterwards, no other entry written */
size_t g_oi;     /* witness: any other table index */
static long c_option_get_spec(mi_option_t option)
__CPROVER_requires((option >= 0 && option < _mi_option_last) ==> VC_OPT_BOUND(option))
__CPROVER_requires(g_oi < (size_t)_mi_option_last)
__CPROVER_assigns(option >= 0 && option < _mi_option_last: options[option].value, options[option].init)
__CPROVER_ensures((option >= 0 && option < _mi_option_last) ==> (__CPROVER_return_value == g_opt[option] && options[option].init != UNINIT && options[option].value == g_opt[option]))
__CPROVER_ensures((option < 0 || option >= _mi_option_last) ==> __CPROVER_return_value == 0)
__CPROVER_ensures((size_t)option != g_oi ==> (options[g_oi].value == __CPROVER_old(options[g_oi].value) && options[g_oi].init == __CPROVER_old(options[g_oi].init)));
#endif
