/* c16.h -- contracts for size-class and address arithmetic (property C16).
   Included after mimalloc's headers and BEFORE the real .c file; each declaration carries a
   contract that goto-cc merges with the definition in /repo. */
#ifndef VC_C16_H
#define VC_C16_H
#ifdef VC_CBMC
#ifndef VC_BS
#define VC_BS 48     /* size-class constant of per-class runs; the plan passes -DVC_BS=<class> */
#endif

/* ---- spec helpers (plain C, no quantifiers) ---- */
#define VC_POW2(a) ((a) != 0 && (((a) & ((a)-1)) == 0))

/* _mi_bin: for all 2^64 sizes.  block size of the class is read from the real table. */
size_t _mi_bin(size_t size)
__CPROVER_requires(size <= SIZE_MAX - 8)       /* callers pass size + padding with size <= MI_MAX_ALLOC_SIZE */
__CPROVER_ensures(__CPROVER_return_value >= 1 && __CPROVER_return_value <= MI_BIN_HUGE)
__CPROVER_ensures((size > MI_MEDIUM_OBJ_SIZE_MAX) == (__CPROVER_return_value == MI_BIN_HUGE))
/* the class is large enough */
__CPROVER_ensures(size <= MI_MEDIUM_OBJ_SIZE_MAX ==> _mi_heap_empty.pages[__CPROVER_return_value].block_size >= size)
/* at most 25% internal fragmentation above 64 bytes: (bs - size) * 4 <= bs  (12.5% + word rounding) */
__CPROVER_ensures((size > 64 && size <= MI_MEDIUM_OBJ_SIZE_MAX) ==>
   (_mi_heap_empty.pages[__CPROVER_return_value].block_size - size) * 4 <= _mi_heap_empty.pages[__CPROVER_return_value].block_size)
/* tight: above 64 bytes the next smaller class would not fit; up to 64 bytes classes are rounded to
   double words (MI_ALIGN2W, so that every block of 16 bytes or more is 16-byte aligned) */
__CPROVER_ensures((size > 64 && size <= MI_MEDIUM_OBJ_SIZE_MAX) ==> _mi_heap_empty.pages[__CPROVER_return_value - 1].block_size < size)
__CPROVER_ensures((size <= 64) ==> _mi_heap_empty.pages[__CPROVER_return_value].block_size - size < 16)
__CPROVER_ensures((size > 8 && size <= MI_MEDIUM_OBJ_SIZE_MAX) ==> (_mi_heap_empty.pages[__CPROVER_return_value].block_size % 16) == 0)
__CPROVER_assigns();

size_t _mi_bin_size(size_t bin)
__CPROVER_requires(bin <= MI_BIN_FULL)
__CPROVER_ensures(__CPROVER_return_value == _mi_heap_empty.pages[bin].block_size)
__CPROVER_assigns();

size_t g_os_page_size;   /* logical variable: the OS page size */
size_t _mi_os_page_size(void)
__CPROVER_requires(1)
__CPROVER_ensures(__CPROVER_return_value == g_os_page_size)
__CPROVER_assigns();

size_t mi_good_size(size_t size)
__CPROVER_requires(size <= MI_MAX_ALLOC_SIZE)
__CPROVER_requires(VC_POW2(g_os_page_size) && g_os_page_size >= 4096 && g_os_page_size <= (1UL << 30))
__CPROVER_ensures(__CPROVER_return_value >= size)
__CPROVER_ensures(size <= MI_MEDIUM_OBJ_SIZE_MAX - MI_PADDING_SIZE ==> __CPROVER_return_value <= MI_MEDIUM_OBJ_SIZE_MAX)
__CPROVER_ensures(__CPROVER_return_value % 8 == 0)
__CPROVER_ensures((size > 64 && size + MI_PADDING_SIZE <= MI_MEDIUM_OBJ_SIZE_MAX) ==> (__CPROVER_return_value - size) * 4 <= __CPROVER_return_value + 4*MI_PADDING_SIZE)
__CPROVER_ensures(size + MI_PADDING_SIZE > MI_MEDIUM_OBJ_SIZE_MAX ==> __CPROVER_return_value - size < g_os_page_size + MI_PADDING_SIZE)
__CPROVER_assigns();

static inline uintptr_t _mi_align_up(uintptr_t sz, size_t alignment)
__CPROVER_requires(VC_POW2(alignment) && sz <= UINTPTR_MAX - alignment)
__CPROVER_ensures(__CPROVER_return_value >= sz && __CPROVER_return_value - sz < alignment)
__CPROVER_ensures((__CPROVER_return_value & (alignment - 1)) == 0)
__CPROVER_assigns();

static inline uintptr_t _mi_align_down(uintptr_t sz, size_t alignment)
__CPROVER_requires(VC_POW2(alignment))
__CPROVER_ensures(__CPROVER_return_value <= sz && sz - __CPROVER_return_value < alignment)
__CPROVER_ensures((__CPROVER_return_value & (alignment - 1)) == 0)
__CPROVER_assigns();

static inline size_t _mi_wsize_from_size(size_t size)
__CPROVER_requires(size <= SIZE_MAX - 8)
__CPROVER_ensures(__CPROVER_return_value * 8 >= size && __CPROVER_return_value * 8 - size < 8)
__CPROVER_assigns();

static inline size_t _mi_clamp(size_t sz, size_t min, size_t max)
__CPROVER_requires(min <= max)
__CPROVER_ensures(__CPROVER_return_value >= min && __CPROVER_return_value <= max)
__CPROVER_ensures((sz >= min && sz <= max) ==> __CPROVER_return_value == sz)
__CPROVER_assigns();

static inline bool _mi_is_power_of_two(uintptr_t x)
__CPROVER_requires(1)
__CPROVER_ensures(__CPROVER_return_value == (x == 0 || VC_POW2(x)))
__CPROVER_assigns();

#endif
#endif

#ifdef VC_CBMC
/* ---------- second part: address arithmetic ---------- */
#ifdef VC_C16_PTR

/* logical variables fixed by the harness (tie pre- to post-state) */
size_t g_idx;      /* block index inside the page area */
size_t g_off;      /* interior offset inside the block */
size_t g_area;     /* byte size of the modelled page area */

/* interior pointer -> block start.  Two contracts: power-of-two classes through the shift, every
   other class through the modulo with the class constant VC_BS (one run per size class). */
mi_block_t* _mi_page_ptr_unalign(const mi_page_t* page, const void* p)
__CPROVER_requires(__CPROVER_is_fresh(page, sizeof(mi_page_t)))
__CPROVER_requires(g_area >= 1 && g_area <= MI_MEDIUM_PAGE_SIZE)
__CPROVER_requires(__CPROVER_is_fresh(page->page_start, g_area))
#ifdef VC_SHIFT_PATH
__CPROVER_requires(page->block_size_shift >= 3 && page->block_size_shift <= 16)
__CPROVER_requires(page->block_size == ((size_t)1 << page->block_size_shift))
__CPROVER_requires(g_idx < 65536 && g_off < page->block_size && ((g_idx << page->block_size_shift) + g_off) < g_area)
__CPROVER_requires(p == page->page_start + (g_idx << page->block_size_shift) + g_off)
__CPROVER_ensures((uint8_t*)__CPROVER_return_value == page->page_start + (g_idx << page->block_size_shift))
#else
__CPROVER_requires(page->block_size_shift == 0 && page->block_size == VC_BS)
__CPROVER_requires(g_idx < 65536 && g_off < VC_BS && g_idx * VC_BS + g_off < g_area)
__CPROVER_requires(p == page->page_start + g_idx * VC_BS + g_off)
__CPROVER_ensures((uint8_t*)__CPROVER_return_value == page->page_start + g_idx * VC_BS)
#endif
__CPROVER_assigns();

/* span bin of a slice count: within the table, monotone is a lemma (two calls) */
static inline size_t mi_slice_bin8(size_t slice_count)
__CPROVER_requires(slice_count <= MI_SLICES_PER_SEGMENT)
__CPROVER_ensures(__CPROVER_return_value <= MI_SEGMENT_BIN_MAX)
__CPROVER_ensures(slice_count <= 8 ==> __CPROVER_return_value == slice_count)
__CPROVER_assigns();

/* fast division used by the heap walk: magic/shift from the real mi_get_fast_divisor */
static void mi_get_fast_divisor(size_t divisor, uint64_t* magic, size_t* shift)
__CPROVER_requires(divisor > 0 && divisor <= UINT32_MAX)
__CPROVER_requires(__CPROVER_is_fresh(magic, sizeof(*magic)) && __CPROVER_is_fresh(shift, sizeof(*shift)))
__CPROVER_ensures(*shift <= 32 && ((uint64_t)1 << *shift) >= divisor && (*shift == 0 || ((uint64_t)1 << (*shift - 1)) < divisor))
__CPROVER_assigns(*magic, *shift);

#endif /* VC_C16_PTR */

#ifdef VC_C16_SEG
mi_segment_t* g_seg;   /* logical variable: the segment object */
/* pointer -> segment: every address in (seg, seg + MI_SEGMENT_SIZE] maps to seg (the `- 1` makes the
   huge-aligned case p == seg + MI_SEGMENT_SIZE work) */
static inline mi_segment_t* _mi_ptr_segment(const void* p)
__CPROVER_requires(__CPROVER_is_fresh(g_seg, MI_SEGMENT_SIZE))
__CPROVER_requires(g_off >= 1 && g_off <= MI_SEGMENT_SIZE && p == (uint8_t*)g_seg + g_off)
__CPROVER_ensures(__CPROVER_return_value == g_seg)
__CPROVER_assigns();

/* pointer -> page: the slice entry of p points back to the head of its span */
static inline mi_page_t* _mi_segment_page_of(const mi_segment_t* segment, const void* p)
__CPROVER_requires(__CPROVER_is_fresh(segment, sizeof(mi_segment_t)))   /* header only: a 4 MiB object exhausts the SAT solver */
__CPROVER_requires(g_off >= 1 && g_off < MI_SEGMENT_SIZE && p == (uint8_t*)segment + g_off)
/* SWF_at(idx): slice idx carries the byte distance to the head g_idx <= idx of its span */
__CPROVER_requires(g_idx <= (g_off >> MI_SEGMENT_SLICE_SHIFT) && (g_off >> MI_SEGMENT_SLICE_SHIFT) <= MI_SLICES_PER_SEGMENT)
__CPROVER_requires(segment->slices[g_off >> MI_SEGMENT_SLICE_SHIFT].slice_offset == ((g_off >> MI_SEGMENT_SLICE_SHIFT) - g_idx) * sizeof(mi_slice_t))
__CPROVER_ensures(__CPROVER_return_value == (mi_page_t*)&segment->slices[g_idx])
__CPROVER_assigns();

/* start of the page area of a span: inside the span, 16-aligned, block-size aligned for classes up to
   MI_MAX_ALIGN_GUARANTEE, and page_size is what is left */
size_t g_psize;
static uint8_t* _mi_segment_page_start_from_slice(const mi_segment_t* segment, const mi_slice_t* slice, size_t block_size, size_t* page_size)
__CPROVER_requires(__CPROVER_is_fresh(segment, sizeof(mi_segment_t)))
__CPROVER_requires(g_idx < MI_SLICES_PER_SEGMENT && slice == &segment->slices[g_idx])
__CPROVER_requires(slice->slice_count >= 1 && slice->slice_count <= MI_SLICES_PER_SEGMENT - g_idx)
__CPROVER_requires(block_size == VC_BS)
__CPROVER_requires(((uintptr_t)segment % MI_SEGMENT_SIZE) == 0)    /* segments are MI_SEGMENT_SIZE aligned */
__CPROVER_requires(__CPROVER_is_fresh(page_size, sizeof(size_t)))
/* (offsets, not pointer relations: the page area lies beyond the modelled mi_segment_t object) */
__CPROVER_ensures(__CPROVER_same_object(__CPROVER_return_value, segment))
__CPROVER_ensures(__CPROVER_POINTER_OFFSET(__CPROVER_return_value) >= g_idx * MI_SEGMENT_SLICE_SIZE)
__CPROVER_ensures(*page_size <= (size_t)slice->slice_count * MI_SEGMENT_SLICE_SIZE)
__CPROVER_ensures(__CPROVER_POINTER_OFFSET(__CPROVER_return_value) + *page_size == (g_idx + slice->slice_count) * MI_SEGMENT_SLICE_SIZE)
__CPROVER_ensures((__CPROVER_POINTER_OFFSET(__CPROVER_return_value) % 16) == 0)
__CPROVER_ensures((VC_BS > 0 && VC_BS <= MI_MAX_ALIGN_GUARANTEE && (size_t)slice->slice_count * MI_SEGMENT_SLICE_SIZE >= 2*(size_t)VC_BS) ==>
                  (((uintptr_t)__CPROVER_return_value) % (VC_BS > 0 ? VC_BS : 1)) == 0)
/* at least one block fits when the span was sized for the class */
__CPROVER_ensures(((size_t)slice->slice_count * MI_SEGMENT_SLICE_SIZE >= 8*(size_t)VC_BS || VC_BS > MI_MAX_ALIGN_GUARANTEE) ==> *page_size >= VC_BS)
__CPROVER_assigns(*page_size);
#endif
#endif
