/* c16.h -- contracts for size-class and address arithmetic (property C16).
   Included after mimalloc's headers and BEFORE the real .c file; each declaration carries a
   contract that goto-cc merges with the definition in /repo. */
#ifndef VC_C16_H
#define VC_C16_H
#ifdef VC_CBMC

/* ---- spec helpers (plain C, no quantifiers) ---- */
#define VC_POW2(a) ((a) != 0 && (((a) & ((a)-1)) == 0))

/* _mi_bin: for all 2^64 sizes.  block size of the class is read from the real table. */
size_t _mi_bin(size_t size)
__CPROVER_requires(size <= SIZE_MAX - 8)       /* callers pass size + padding with size <= MI_MAX_ALLOC_SIZE */
__CPROVER_ensures(__CPROVER_return_value >= 1 && __CPROVER_return_value <= MI_BIN_HUGE)
__CPROVER_ensures((size > MI_MEDIUM_OBJ_SIZE_MAX) == (__CPROVER_return_value == MI_BIN_HUGE))
/* the class is large enough */
__CPROVER_ensures(size <= MI_MEDIUM_OBJ_SIZE_MAX ==> _mi_heap_empty.pages[__CPROVER_return_value].block_size >= size)
/* at most 25% internal fragmentation above 64 bytes: (bs - size) * 4 <= bs  (12.5% + word rounding) */
__CPROVER_ensures((size > 64 && size <= MI_MEDIUM_OBJ_SIZE_MAX) ==>
   (_mi_heap_empty.pages[__CPROVER_return_value].block_size - size) * 4 <= _mi_heap_empty.pages[__CPROVER_return_value].block_size)
/* tight: above 64 bytes the next smaller class would not fit; up to 64 bytes classes are rounded to
   double words (MI_ALIGN2W, so that every block of 16 bytes or more is 16-byte aligned) */
__CPROVER_ensures((size > 64 && size <= MI_MEDIUM_OBJ_SIZE_MAX) ==> _mi_heap_empty.pages[__CPROVER_return_value - 1].block_size < size)
__CPROVER_ensures((size <= 64) ==> _mi_heap_empty.pages[__CPROVER_return_value].block_size - size < 16)
__CPROVER_ensures((size > 8 && size <= MI_MEDIUM_OBJ_SIZE_MAX) ==> (_mi_heap_empty.pages[__CPROVER_return_value].block_size % 16) == 0)
__CPROVER_assigns();

size_t _mi_bin_size(size_t bin)
__CPROVER_requires(bin <= MI_BIN_FULL)
__CPROVER_ensures(__CPROVER_return_value == _mi_heap_empty.pages[bin].block_size)
__CPROVER_assigns();

size_t g_os_page_size;   /* logical variable: the OS page size */
size_t _mi_os_page_size(void)
__CPROVER_requires(1)
__CPROVER_ensures(__CPROVER_return_value == g_os_page_size)
__CPROVER_assigns();

size_t mi_good_size(size_t size)
__CPROVER_requires(size <= MI_MAX_ALLOC_SIZE)
__CPROVER_requires(VC_POW2(g_os_page_size) && g_os_page_size >= 4096 && g_os_page_size <= (1UL << 30))
__CPROVER_ensures(__CPROVER_return_value >= size)
__CPROVER_ensures(size <= MI_MEDIUM_OBJ_SIZE_MAX - MI_PADDING_SIZE ==> __CPROVER_return_value <= MI_MEDIUM_OBJ_SIZE_MAX)
__CPROVER_ensures(__CPROVER_return_value % 8 == 0)
__CPROVER_ensures((size > 64 && size + MI_PADDING_SIZE <= MI_MEDIUM_OBJ_SIZE_MAX) ==> (__CPROVER_return_value - size) * 4 <= __CPROVER_return_value + 4*MI_PADDING_SIZE)
__CPROVER_ensures(size + MI_PADDING_SIZE > MI_MEDIUM_OBJ_SIZE_MAX ==> __CPROVER_return_value - size < g_os_page_size + MI_PADDING_SIZE)
__CPROVER_assigns();

static inline uintptr_t _mi_align_up(uintptr_t sz, size_t alignment)
__CPROVER_requires(VC_POW2(alignment) && sz <= UINTPTR_MAX - alignment)
__CPROVER_ensures(__CPROVER_return_value >= sz && __CPROVER_return_value - sz < alignment)
__CPROVER_ensures((__CPROVER_return_value & (alignment - 1)) == 0)
__CPROVER_assigns();

static inline uintptr_t _mi_align_down(uintptr_t sz, size_t alignment)
__CPROVER_requires(VC_POW2(alignment))
__CPROVER_ensures(__CPROVER_return_value <= sz && sz - __CPROVER_return_value < alignment)
__CPROVER_ensures((__CPROVER_return_value & (alignment - 1)) == 0)
__CPROVER_assigns();

static inline size_t _mi_wsize_from_size(size_t size)
__CPROVER_requires(size <= SIZE_MAX - 8)
__CPROVER_ensures(__CPROVER_return_value * 8 >= size && __CPROVER_return_value * 8 - size < 8)
__CPROVER_assigns();

static inline size_t _mi_clamp(size_t sz, size_t min, size_t max)
__CPROVER_requires(min <= max)
__CPROVER_ensures(__CPROVER_return_value >= min && __CPROVER_return_value <= max)
__CPROVER_ensures((sz >= min && sz <= max) ==> __CPROVER_return_value == sz)
__CPROVER_assigns();

static inline bool _mi_is_power_of_two(uintptr_t x)
__CPROVER_requires(1)
__CPROVER_ensures(__CPROVER_return_value == (x == 0 || VC_POW2(x)))
__CPROVER_assigns();

#endif
#endif
