/* alloc.h -- contracts on the real alloc.c (+free.c): re-allocation (C05), zero slack (C04), overflow (C06).
   Included AFTER src/alloc.c. */
#ifdef VC_CBMC
/* ---- logical variables ---- */
size_t  g_k;            /* witness byte offset inside a block */
size_t  g_usable_old;   /* mi_usable_size of the block passed in (0 for NULL) */
size_t  g_usable_new;   /* mi_usable_size of the block the allocator returns (>= the request, C16) */
size_t  g_req_old;      /* size the program last requested for the old block */
uint8_t g_pbyte;        /* contents of the old block at the witness offset */
void*   g_q;            /* the block returned by the allocation callee (NULL when it failed) */
/* ---- recorders ---- */
size_t g_malloc_n;  size_t g_malloc_size;  bool g_malloc_zero; mi_heap_t* g_malloc_heap;
size_t g_free_n;    void*  g_free_p;

#define VC_SZ_MAX ((size_t)1 << 32)

/* callee contracts (assumed here; enforced on the allocator side in C01/C03/C16) */
void* mi_heap_malloc(mi_heap_t* heap, size_t size)
__CPROVER_requires(1)
__CPROVER_assigns(g_malloc_n, g_malloc_size, g_malloc_zero, g_malloc_heap, g_q)
__CPROVER_ensures(g_malloc_n == __CPROVER_old(g_malloc_n) + 1 && g_malloc_size == size && !g_malloc_zero && g_malloc_heap == heap)
__CPROVER_ensures(__CPROVER_return_value == NULL ? g_q == NULL : (__CPROVER_is_fresh(__CPROVER_return_value, g_usable_new) && g_q == __CPROVER_return_value));

void* mi_heap_zalloc(mi_heap_t* heap, size_t size)
__CPROVER_requires(1)
__CPROVER_assigns(g_malloc_n, g_malloc_size, g_malloc_zero, g_malloc_heap, g_q)
__CPROVER_ensures(g_malloc_n == __CPROVER_old(g_malloc_n) + 1 && g_malloc_size == size && g_malloc_zero && g_malloc_heap == heap)
__CPROVER_ensures(__CPROVER_return_value == NULL ? g_q == NULL : (__CPROVER_is_fresh(__CPROVER_return_value, g_usable_new) && g_q == __CPROVER_return_value));

void mi_free(void* p)
__CPROVER_requires(1)
__CPROVER_assigns(g_free_n, g_free_p)
__CPROVER_ensures(g_free_n == __CPROVER_old(g_free_n) + 1 && g_free_p == p);

#define VC_USABLE(p) ((p) == NULL ? (size_t)0 : ((p) == g_q ? g_usable_new : g_usable_old))
static inline size_t _mi_usable_size(const void* p, const char* msg)
__CPROVER_requires(1) __CPROVER_assigns() __CPROVER_ensures(__CPROVER_return_value == VC_USABLE(p));
size_t mi_usable_size(const void* p)
__CPROVER_requires(1) __CPROVER_assigns() __CPROVER_ensures(__CPROVER_return_value == VC_USABLE(p));

/* block fill/copy of symbolic length: effect stated at the witness byte of the destination OBJECT, every other byte unchanged
   at the witness (the witness is arbitrary, so this is the byte-wise specification of memset/memcpy) */
#define VC_OFF(p) __CPROVER_POINTER_OFFSET(p)
#define VC_IN(p, n) (g_k >= VC_OFF(p) && g_k - VC_OFF(p) < (n))
#define VC_KC(p) (g_k < __CPROVER_OBJECT_SIZE(p) ? g_k : (size_t)0)        /* keeps the pre-state snapshot inside the object */
#define VC_OBJBYTE(p) (*((uint8_t*)(p) - VC_OFF(p) + VC_KC(p)))
static inline void _mi_memzero(void* dst, size_t n)
__CPROVER_requires(n == 0 || __CPROVER_w_ok(dst, n))
__CPROVER_assigns(n > 0: __CPROVER_object_whole(dst))
__CPROVER_ensures((n > 0 && VC_IN(dst, n)) ==> VC_OBJBYTE(dst) == 0)
__CPROVER_ensures((n > 0 && !VC_IN(dst, n) && g_k < __CPROVER_OBJECT_SIZE(dst)) ==> VC_OBJBYTE(dst) == __CPROVER_old(VC_OBJBYTE(dst)));

static inline void _mi_memcpy(void* dst, const void* src, size_t n)
__CPROVER_requires(n == 0 || (__CPROVER_w_ok(dst, n) && __CPROVER_r_ok(src, n) && !__CPROVER_same_object(dst, src)))
__CPROVER_assigns(n > 0: __CPROVER_object_whole(dst))
__CPROVER_ensures((n > 0 && VC_IN(dst, n)) ==> VC_OBJBYTE(dst) == ((const uint8_t*)src)[g_k - VC_OFF(dst)])
__CPROVER_ensures((n > 0 && !VC_IN(dst, n) && g_k < __CPROVER_OBJECT_SIZE(dst)) ==> VC_OBJBYTE(dst) == __CPROVER_old(VC_OBJBYTE(dst)));

/* ---- the function under contract: C05 (copy / free exactly when moved / failure leaves the block) and C04 (zero slack) ---- */
#define VC_INPLACE(p, newsize) ((p) != NULL && (newsize) > 0 && (newsize) <= g_usable_old && (newsize) >= g_usable_old / 2)
void* _mi_heap_realloc_zero(mi_heap_t* heap, void* p, size_t newsize, bool zero)
__CPROVER_requires(g_usable_old <= VC_SZ_MAX && g_usable_new <= VC_SZ_MAX && newsize <= VC_SZ_MAX && g_k < VC_SZ_MAX)
__CPROVER_requires(p == NULL ? g_usable_old == 0 : (g_usable_old >= 8 && __CPROVER_is_fresh(p, g_usable_old)))
__CPROVER_requires(g_usable_new >= newsize && g_usable_new >= 8)              /* the allocator's size guarantee (C16) */
__CPROVER_requires((p != NULL && g_k < g_usable_old) ==> ((uint8_t*)p)[g_k] == g_pbyte)
/* zero invariant Z(p, g_req_old): the slack of a zero-initialised block is zero */
__CPROVER_requires(g_req_old <= g_usable_old)
__CPROVER_requires((zero && p != NULL && g_k >= g_req_old && g_k < g_usable_old) ==> ((uint8_t*)p)[g_k] == 0)
__CPROVER_requires(g_malloc_n == 0 && g_free_n == 0 && g_q == NULL)
__CPROVER_assigns(g_malloc_n, g_malloc_size, g_malloc_zero, g_malloc_heap, g_q, g_free_n, g_free_p)   /* frame: the old block is never written */
/* in place: same pointer, nothing allocated, nothing freed */
__CPROVER_ensures(VC_INPLACE(p, newsize) ==> (__CPROVER_return_value == p && g_malloc_n == 0 && g_free_n == 0))
/* otherwise exactly one allocation of exactly the new size from the same heap */
__CPROVER_ensures(!VC_INPLACE(p, newsize) ==> (g_malloc_n == 1 && g_malloc_size == newsize && g_malloc_heap == heap && __CPROVER_return_value == g_q))
/* failure: NULL, the original block is neither freed nor written */
__CPROVER_ensures(__CPROVER_return_value == NULL ==> g_free_n == 0)
__CPROVER_ensures((p != NULL && g_k < g_usable_old) ==> ((uint8_t*)p)[g_k] == g_pbyte)
/* moved: the old block is released exactly once, and it is the old block */
__CPROVER_ensures((__CPROVER_return_value != NULL && __CPROVER_return_value != p && p != NULL) ==> (g_free_n == 1 && g_free_p == p))
__CPROVER_ensures((__CPROVER_return_value != NULL && p == NULL) ==> g_free_n == 0)
/* contents: the first min(old, new) bytes are the old bytes */
__CPROVER_ensures((__CPROVER_return_value != NULL && p != NULL && g_k < g_usable_old && g_k < newsize) ==> ((uint8_t*)__CPROVER_return_value)[g_k] == g_pbyte)
/* zero size yields a valid minimal block whose first byte is zero */
__CPROVER_ensures((__CPROVER_return_value != NULL && newsize == 0 && g_k == 0) ==> ((uint8_t*)__CPROVER_return_value)[0] == 0)
/* C04: growing a zero-initialised block: every byte from the previous requested size up to the USABLE size of the result is
   zero -- this covers [old request, new request) and re-establishes Z(result, newsize) for the next growth */
__CPROVER_ensures((zero && __CPROVER_return_value != NULL && newsize >= g_req_old && g_k >= g_req_old &&
                   g_k < (__CPROVER_return_value == p ? g_usable_old : g_usable_new)) ==> ((uint8_t*)__CPROVER_return_value)[g_k] == 0);

/* ---- overflow-checked multiply (C06).  The 64x64 multiplier itself (one call of __builtin_umull_overflow inside
   mi_mul_overflow) is TRUSTED and kept uninterpreted: its result is the pair of logical variables (g_ov, g_prod), meaning
   "count*size overflows" and "the low 64 bits of the product".  Every installed back end times out on relating two
   encodings of a 64-bit multiplier, so everything above the primitive is proved relative to it. ---- */
bool   g_ov;
size_t g_prod;
static inline bool mi_mul_overflow(size_t count, size_t size, size_t* total)
__CPROVER_requires(__CPROVER_w_ok(total, sizeof(size_t)))
__CPROVER_assigns(*total)
__CPROVER_ensures(__CPROVER_return_value == g_ov && *total == g_prod);
#define VC_OV(count, size)    ((count) != 1 && g_ov)                   /* does count*size overflow? (1*size never does) */
#define VC_PROD(count, size)  ((count) == 1 ? (size) : g_prod)        /* the product when it does not */

static inline bool mi_count_size_overflow(size_t count, size_t size, size_t* total)
__CPROVER_requires(__CPROVER_is_fresh(total, sizeof(size_t)))
__CPROVER_assigns(*total)
__CPROVER_ensures(__CPROVER_return_value == VC_OV(count, size))
__CPROVER_ensures(!__CPROVER_return_value ==> *total == VC_PROD(count, size))
__CPROVER_ensures(__CPROVER_return_value ==> *total == SIZE_MAX);

/* the same contract as seen by callers (total is a caller local) */
static inline bool c_count_size_overflow_use(size_t count, size_t size, size_t* total)
__CPROVER_requires(__CPROVER_w_ok(total, sizeof(size_t)))
__CPROVER_assigns(*total)
__CPROVER_ensures(__CPROVER_return_value == VC_OV(count, size))
__CPROVER_ensures(!__CPROVER_return_value ==> *total == VC_PROD(count, size))
__CPROVER_ensures(__CPROVER_return_value ==> *total == SIZE_MAX);

/* wrappers: overflow => NULL and no callee entered; otherwise exactly the product is requested */
#define VC_WRAP_PRE  (g_malloc_n == 0 && g_free_n == 0 && g_q == NULL)
void* mi_heap_calloc(mi_heap_t* heap, size_t count, size_t size)
__CPROVER_requires(VC_WRAP_PRE)
__CPROVER_assigns(g_malloc_n, g_malloc_size, g_malloc_zero, g_malloc_heap, g_q)
__CPROVER_ensures(VC_OV(count, size) ==> (__CPROVER_return_value == NULL && g_malloc_n == 0))
__CPROVER_ensures(!VC_OV(count, size) ==> (g_malloc_n == 1 && g_malloc_zero && g_malloc_size == VC_PROD(count, size) && __CPROVER_return_value == g_q));

void* mi_heap_mallocn(mi_heap_t* heap, size_t count, size_t size)
__CPROVER_requires(VC_WRAP_PRE)
__CPROVER_assigns(g_malloc_n, g_malloc_size, g_malloc_zero, g_malloc_heap, g_q)
__CPROVER_ensures(VC_OV(count, size) ==> (__CPROVER_return_value == NULL && g_malloc_n == 0))
__CPROVER_ensures(!VC_OV(count, size) ==> (g_malloc_n == 1 && !g_malloc_zero && g_malloc_size == VC_PROD(count, size) && __CPROVER_return_value == g_q));

/* recorder for the realloc core when its callers are verified */
size_t g_realloc_n; void* g_realloc_p; size_t g_realloc_size; bool g_realloc_zero; void* g_realloc_ret;
void* c_realloc_rec(mi_heap_t* heap, void* p, size_t newsize, bool zero)
__CPROVER_requires(1)
__CPROVER_assigns(g_realloc_n, g_realloc_p, g_realloc_size, g_realloc_zero, g_realloc_ret)
__CPROVER_ensures(g_realloc_n == __CPROVER_old(g_realloc_n) + 1 && g_realloc_p == p && g_realloc_size == newsize && g_realloc_zero == zero && g_realloc_ret == __CPROVER_return_value);

#define VC_REALLOCN_POST(zeroflag) \
  __CPROVER_ensures(VC_OV(count, size) ==> (__CPROVER_return_value == NULL && g_realloc_n == 0 && g_free_n == 0)) \
  __CPROVER_ensures(!VC_OV(count, size) ==> (g_realloc_n == 1 && g_realloc_p == p && g_realloc_size == VC_PROD(count, size) && g_realloc_zero == (zeroflag) && __CPROVER_return_value == g_realloc_ret))
void* mi_heap_reallocn(mi_heap_t* heap, void* p, size_t count, size_t size)
__CPROVER_requires(g_realloc_n == 0 && g_free_n == 0)
__CPROVER_assigns(g_realloc_n, g_realloc_p, g_realloc_size, g_realloc_zero, g_realloc_ret)
VC_REALLOCN_POST(false);
void* mi_heap_recalloc(mi_heap_t* heap, void* p, size_t count, size_t size)
__CPROVER_requires(g_realloc_n == 0 && g_free_n == 0)
__CPROVER_assigns(g_realloc_n, g_realloc_p, g_realloc_size, g_realloc_zero, g_realloc_ret)
VC_REALLOCN_POST(true);

/* reallocf: frees the original exactly when the re-allocation failed */
void* mi_heap_reallocf(mi_heap_t* heap, void* p, size_t newsize)
__CPROVER_requires(g_realloc_n == 0 && g_free_n == 0)
__CPROVER_assigns(g_realloc_n, g_realloc_p, g_realloc_size, g_realloc_zero, g_realloc_ret, g_free_n, g_free_p)
__CPROVER_ensures(g_realloc_n == 1 && g_realloc_p == p && g_realloc_size == newsize && !g_realloc_zero && __CPROVER_return_value == g_realloc_ret)
__CPROVER_ensures((__CPROVER_return_value == NULL && p != NULL) ==> (g_free_n == 1 && g_free_p == p))
__CPROVER_ensures((__CPROVER_return_value != NULL || p == NULL) ==> g_free_n == 0);

/* the default-heap forms forward to the same heap forms (so that the contracts above carry over) */
size_t g_fwd_n; void* g_fwd_p; size_t g_fwd_a; size_t g_fwd_b; void* g_fwd_ret; mi_heap_t* g_fwd_heap;
void* c_fwd_heap_p_size(mi_heap_t* heap, void* p, size_t a)
__CPROVER_requires(1) __CPROVER_assigns(g_fwd_n, g_fwd_p, g_fwd_a, g_fwd_ret, g_fwd_heap)
__CPROVER_ensures(g_fwd_n == __CPROVER_old(g_fwd_n) + 1 && g_fwd_p == p && g_fwd_a == a && g_fwd_ret == __CPROVER_return_value && g_fwd_heap == heap);
#define VC_FWD1(name) void* name(void* p, size_t newsize) \
  __CPROVER_requires(g_fwd_n == 0) __CPROVER_assigns(g_fwd_n, g_fwd_p, g_fwd_a, g_fwd_ret, g_fwd_heap) \
  __CPROVER_ensures(g_fwd_n == 1 && g_fwd_p == p && g_fwd_a == newsize && __CPROVER_return_value == g_fwd_ret);
VC_FWD1(mi_realloc)
VC_FWD1(mi_reallocf)
VC_FWD1(mi_rezalloc)

/* mi_expand never moves a block and succeeds exactly up to the usable size (release build) */
void* mi_expand(void* p, size_t newsize)
__CPROVER_requires(g_q == NULL)
__CPROVER_assigns()
#if MI_PADDING
__CPROVER_ensures(__CPROVER_return_value == NULL)
#else
__CPROVER_ensures(__CPROVER_return_value == ((p != NULL && newsize <= g_usable_old) ? p : NULL))
#endif
;
#endif
