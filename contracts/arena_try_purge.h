/* mi_arena_try_purge (arena.c), sequential: what one purge pass does to the bitmaps of an arena.  One bitmap field (64 blocks);
   all four nested loops are closed by loop contracts (loops/arena_try_purge.json), so the result holds for every in-use / scheduled
   / committed bit pattern.  Witness block g_wb instead of a quantifier over blocks.  The bitmap primitives and mi_arena_purge_range
   are used through sequential functional contracts (enforced on the real bodies by their own pairs). */
#ifdef VC_CBMC
size_t g_iu0, g_pu0, g_cmt0;      /* logical: in-use / scheduled / committed field before the call */
int64_t g_aexp0;                  /* logical: the arena's purge deadline before the call */
size_t g_wb;                      /* witness block */
mi_arena_t* g_arena;              /* the arena the harness built (no is_fresh: its bitmap pointers point into the object itself) */
size_t *g_iu, *g_pu, *g_cm;       /* its three fields */
size_t g_osp_n; bool g_osp_w;     /* recorder: purge requests; did one of them cover block g_wb? */
bool g_osp_outside;               /* ... did one of them not map to whole blocks inside the arena? */
#define VC_MASK(bi, n)  (((n) >= 64 ? ~(size_t)0 : (((size_t)1 << (n)) - 1)) << (bi))
#define VC_WBIT(m)      ((((m) >> g_wb) & 1) != 0)
#define VC_PROCEEDS(force, now) (!g_arena->memid.is_pinned && ((force) || (g_aexp0 != 0 && g_aexp0 <= (now))))
#define VC_BIDX(idx)    ((idx) % MI_BITMAP_FIELD_BITS)

/* ---- sequential functional contracts of the bitmap primitives on a one-field bitmap ---- */
bool c_bm_try_claim_seq(mi_bitmap_t bitmap, size_t bitmap_fields, size_t count, mi_bitmap_index_t bitmap_idx)
__CPROVER_requires(bitmap == g_iu && bitmap_fields == 1 && bitmap_idx < MI_BITMAP_FIELD_BITS && count >= 1 && count <= MI_BITMAP_FIELD_BITS - bitmap_idx)
__CPROVER_assigns(*g_iu)
__CPROVER_ensures(((__CPROVER_old(*g_iu) & VC_MASK(bitmap_idx, count)) == 0) ? (__CPROVER_return_value && *g_iu == (__CPROVER_old(*g_iu) | VC_MASK(bitmap_idx, count)))
                                                                              : (!__CPROVER_return_value && *g_iu == __CPROVER_old(*g_iu)));
bool c_bm_unclaim_seq(mi_bitmap_t bitmap, size_t bitmap_fields, size_t count, mi_bitmap_index_t bitmap_idx)
__CPROVER_requires(bitmap == g_iu && bitmap_fields == 1 && bitmap_idx < MI_BITMAP_FIELD_BITS && count >= 1 && count <= MI_BITMAP_FIELD_BITS - bitmap_idx)
__CPROVER_assigns(*g_iu)
__CPROVER_ensures(*g_iu == (__CPROVER_old(*g_iu) & ~VC_MASK(bitmap_idx, count)));
/* (the unconditional claim: sets the bits whether or not they were free) */
bool c_bm_claim_seq(mi_bitmap_t bitmap, size_t bitmap_fields, size_t count, mi_bitmap_index_t bitmap_idx, bool* any_zero)
__CPROVER_requires(bitmap == g_iu && bitmap_fields == 1 && bitmap_idx < MI_BITMAP_FIELD_BITS && count >= 1 && count <= MI_BITMAP_FIELD_BITS - bitmap_idx && any_zero == NULL)
__CPROVER_assigns(*g_iu)
__CPROVER_ensures(*g_iu == (__CPROVER_old(*g_iu) | VC_MASK(bitmap_idx, count)) && __CPROVER_return_value == ((__CPROVER_old(*g_iu) & VC_MASK(bitmap_idx, count)) == 0));

/* ---- purge the scheduled blocks of a range the caller has claimed ---- */
static bool c_purge_range_use(mi_arena_t* arena, size_t idx, size_t startidx, size_t bitlen, size_t purge)
__CPROVER_requires(arena == g_arena && idx == 0 && bitlen >= 1 && startidx < MI_BITMAP_FIELD_BITS && bitlen <= MI_BITMAP_FIELD_BITS - startidx && g_wb < MI_BITMAP_FIELD_BITS)
__CPROVER_requires(arena->field_count == 1 && arena->block_count == MI_BITMAP_FIELD_BITS && !arena->memid.is_pinned)
/* C13: the call site must own the range: all its in-use bits are set (by the purger's own claim) */
__CPROVER_requires((*g_iu & VC_MASK(startidx, bitlen)) == VC_MASK(startidx, bitlen))
__CPROVER_assigns(*g_pu, *g_cm, g_osp_n, g_osp_w, g_osp_outside)
__CPROVER_ensures(g_osp_outside == __CPROVER_old(g_osp_outside))
/* exactly the blocks of the range that `purge` names are purged and unscheduled; commit bits are only cleared, and only there */
__CPROVER_ensures(*g_pu == (__CPROVER_old(*g_pu) & ~(purge & VC_MASK(startidx, bitlen))))
__CPROVER_ensures((*g_cm & ~__CPROVER_old(*g_cm)) == 0 && ((__CPROVER_old(*g_cm) & ~*g_cm) & ~(purge & VC_MASK(startidx, bitlen))) == 0)
__CPROVER_ensures(g_osp_w == (__CPROVER_old(g_osp_w) || (VC_WBIT(purge & VC_MASK(startidx, bitlen)))))
__CPROVER_ensures(g_osp_n >= __CPROVER_old(g_osp_n));

/* ---- purge one run of blocks: mi_arena_purge, sequential functional form (the byte range of the OS request is the subject of the
   recorder contract in contracts/arena.h; here the OS layer is a recorder body in the harness that maps the range back to blocks) ---- */
static void c_arena_purge_seq(mi_arena_t* arena, size_t bitmap_idx, size_t blocks)
__CPROVER_requires(arena == g_arena && blocks >= 1 && bitmap_idx < MI_BITMAP_FIELD_BITS && blocks <= MI_BITMAP_FIELD_BITS - bitmap_idx)
__CPROVER_requires(arena->field_count == 1 && arena->block_count == MI_BITMAP_FIELD_BITS && !arena->memid.is_pinned && g_wb < MI_BITMAP_FIELD_BITS)
__CPROVER_assigns(*g_pu, *g_cm, g_osp_n, g_osp_w, g_osp_outside)
__CPROVER_ensures(*g_pu == (__CPROVER_old(*g_pu) & ~VC_MASK(bitmap_idx, blocks)))
__CPROVER_ensures((*g_cm & ~__CPROVER_old(*g_cm)) == 0 && ((__CPROVER_old(*g_cm) & ~*g_cm) & ~VC_MASK(bitmap_idx, blocks)) == 0)
__CPROVER_ensures(g_osp_w == (__CPROVER_old(g_osp_w) || (bitmap_idx <= g_wb && g_wb < bitmap_idx + blocks)))
__CPROVER_ensures(g_osp_n == __CPROVER_old(g_osp_n) + 1 && g_osp_outside == __CPROVER_old(g_osp_outside));

static bool mi_arena_try_purge(mi_arena_t* arena, mi_msecs_t now, bool force)
__CPROVER_requires(arena == g_arena && g_wb < MI_BITMAP_FIELD_BITS && g_osp_n == 0 && !g_osp_w && !g_osp_outside)
__CPROVER_requires(arena->field_count == 1 && arena->block_count == MI_BITMAP_FIELD_BITS)
__CPROVER_requires(*g_iu == g_iu0 && *g_pu == g_pu0 && *g_cm == g_cmt0 && arena->purge_expire == g_aexp0)
__CPROVER_requires(now >= 0 && now < ((int64_t)1 << 61) && g_aexp0 >= 0 && g_now >= 0 && g_now < ((int64_t)1 << 61))
__CPROVER_assigns(*g_iu, *g_pu, *g_cm, arena->purge_expire, g_osp_n, g_osp_w, g_osp_outside)
/* C14: every block the purger claimed for the duration of the purge is released again -- nothing stays reserved, nothing in use is released */
__CPROVER_ensures(*g_iu == g_iu0)
/* C13: only ranges the purger holds are purged (precondition of mi_arena_purge_range at its call site); so a block that is in use is never
   purged, and only scheduled blocks are */
__CPROVER_ensures(VC_WBIT(g_iu0) ==> !g_osp_w)
__CPROVER_ensures(g_osp_w ==> VC_WBIT(g_pu0))
__CPROVER_ensures(!g_osp_outside)
/* C18: when the deadline has passed (or the call is forced) every scheduled free block is purged and unscheduled; blocks in use stay scheduled */
__CPROVER_ensures(VC_PROCEEDS(force, now) ==> (VC_WBIT(*g_pu) == (VC_WBIT(g_pu0) && VC_WBIT(g_iu0))))
__CPROVER_ensures((VC_PROCEEDS(force, now) && VC_WBIT(g_pu0) && !VC_WBIT(g_iu0)) ==> (g_osp_w && __CPROVER_return_value))
/* not due, or memory that cannot be purged: nothing happens */
__CPROVER_ensures(!VC_PROCEEDS(force, now) ==> (!__CPROVER_return_value && g_osp_n == 0 && *g_pu == g_pu0 && *g_cm == g_cmt0 && arena->purge_expire == g_aexp0))
/* commit bits are only ever cleared, and only for purged blocks */
__CPROVER_ensures((*g_cm & ~g_cmt0) == 0 && ((VC_WBIT(g_cmt0) && !VC_WBIT(*g_cm)) ==> g_osp_w));
#endif
#ifdef VC_CBMC
long g_delay_seq;
static long c_arena_purge_delay_seq(void) __CPROVER_requires(1) __CPROVER_assigns() __CPROVER_ensures(__CPROVER_return_value == g_delay_seq && g_delay_seq >= -1 && g_delay_seq <= ((long)1 << 40));
#endif
