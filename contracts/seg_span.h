/* Span layer of segment.c (SCALED: 64 slices per segment, MI_MAX_SLICE_OFFSET_COUNT == 31): turning free slices into a page and back.
   What C01/C03/C12 need from it is the "segment well-formed" fact SWF_at(i) that contracts/c16.h takes as the precondition of
   _mi_segment_page_of: slice i of a page span carries the byte distance back to the head of its span, for every slice an
   interior pointer can fall into (the first MI_MAX_SLICE_OFFSET_COUNT+1 slices -- alignments up to MI_BLOCK_ALIGNMENT_MAX), and
   for the last slice (coalescing).  Witness index g_sw instead of a quantifier. */
#ifdef VC_CBMC
size_t g_si, g_sc;        /* logical: slice_index, slice_count of the call */
size_t g_sw;              /* witness: slice number inside the span */
size_t g_so;              /* witness: any slice index of the segment (frame) */
uint32_t g_so_off, g_so_cnt; size_t g_so_bs;   /* logical: its fields before the call */
size_t g_used0;
/* the slice index is enumerated (-DVC_SI=n, one run per index): with a symbolic index every store through `slice_next` becomes a
   byte update at a symbolic offset of the 6 KiB header and no back end here finishes (minisat/cadical/z3/cvc5, > 900 s) */
#ifdef VC_SI
#define VC_SI_OK          (g_si == VC_SI)
#else
#define VC_SI_OK          1
#endif
/* normal and huge segments are separate runs: for a huge page `last = slice + slice_count - 1` points behind the header object that
   models the segment here (in the running program it lies inside the huge mapping), so that run has CBMC's pointer checks off */
#if defined(VC_SPAN_NORMAL)
#define VC_KIND_OK(s)     ((s)->kind == MI_SEGMENT_NORMAL)
#elif defined(VC_SPAN_HUGE)
#define VC_KIND_OK(s)     ((s)->kind == MI_SEGMENT_HUGE)
#else
#define VC_KIND_OK(s)     1
#endif
#define VC_SOFF(i)        ((uint32_t)(sizeof(mi_slice_t) * (i)))
#define VC_MIN(a, b)      ((a) < (b) ? (a) : (b))
/* index of the `last` entry span_allocate/span_free write: clamped to the sentinel entry slices[slice_entries] */
#define VC_LAST(s)        VC_MIN(g_si + g_sc - 1, (size_t)(s)->slice_entries)
#define VC_SLICE_SAME(s)  ((s)->slices[g_so].slice_offset == g_so_off && (s)->slices[g_so].slice_count == g_so_cnt && (s)->slices[g_so].block_size == g_so_bs)
#define VC_SPAN_SEG(s)    (__CPROVER_is_fresh(s, sizeof(mi_segment_t)) && (s)->slice_entries >= 1 && (s)->slice_entries <= MI_SLICES_PER_SEGMENT && \
                           ((s)->kind == MI_SEGMENT_NORMAL || (s)->kind == MI_SEGMENT_HUGE) && g_so <= MI_SLICES_PER_SEGMENT && \
                           (s)->slices[g_so].slice_offset == g_so_off && (s)->slices[g_so].slice_count == g_so_cnt && (s)->slices[g_so].block_size == g_so_bs && \
                           (s)->used == g_used0 && g_used0 < MI_SLICES_PER_SEGMENT)

/* the same for a segment object the harness built (functions that take a slice POINTER: a pointer parameter that is only assumed equal to
   &segment->slices[i] has no provenance in CBMC and reads through it return arbitrary values) */
#define VC_SPAN_SEG2(s)   ((s)->slice_entries >= 1 && (s)->slice_entries <= MI_SLICES_PER_SEGMENT && \
                           ((s)->kind == MI_SEGMENT_NORMAL || (s)->kind == MI_SEGMENT_HUGE) && (s)->used < MI_SLICES_PER_SEGMENT)

/* recorder for the commit-on-demand step (its own contract is enforced in seg_purge.h) */
size_t g_ec_n; uint8_t* g_ec_p; size_t g_ec_size; bool g_ec_ret;
static bool c_ensure_committed_rec(mi_segment_t* segment, uint8_t* p, size_t size)
__CPROVER_requires(1) __CPROVER_assigns(g_ec_n, g_ec_p, g_ec_size, segment->commit_mask, segment->purge_mask, segment->purge_expire)
__CPROVER_ensures(g_ec_n == __CPROVER_old(g_ec_n) + 1 && g_ec_p == p && g_ec_size == size && !__CPROVER_return_value == !g_ec_ret);

/* ---- free slices -> page ---- */
static mi_page_t* mi_segment_span_allocate(mi_segment_t* segment, size_t slice_index, size_t slice_count)
__CPROVER_requires(VC_SPAN_SEG(segment) && slice_index == g_si && slice_count == g_sc && g_ec_n == 0)
__CPROVER_requires(g_si < segment->slice_entries && g_sc >= 1 && g_sc <= ((size_t)1 << 30) && VC_SI_OK && VC_KIND_OK(segment))
/* a normal segment holds the whole span in its entries; the single page of a huge segment may be longer than the entry table */
__CPROVER_requires(segment->kind == MI_SEGMENT_NORMAL ==> g_si + g_sc <= segment->slice_entries)
__CPROVER_requires(segment->slices[g_si].block_size <= 1)
__CPROVER_assigns(segment->slices, segment->used, segment->commit_mask, segment->purge_mask, segment->purge_expire, g_ec_n, g_ec_p, g_ec_size)
/* the memory of the whole span is committed first, and exactly that range */
__CPROVER_ensures(g_ec_n == 1 && __CPROVER_same_object(g_ec_p, segment) && __CPROVER_POINTER_OFFSET(g_ec_p) == g_si * MI_SEGMENT_SLICE_SIZE && g_ec_size == g_sc * MI_SEGMENT_SLICE_SIZE)
/* C07: a refused commit gives NULL and leaves every slice entry and the page count as they were */
__CPROVER_ensures(!g_ec_ret ==> (__CPROVER_return_value == NULL && VC_SLICE_SAME(segment) && segment->used == g_used0))
__CPROVER_ensures(g_ec_ret ==> __CPROVER_return_value == (mi_page_t*)&segment->slices[g_si])
__CPROVER_ensures(g_ec_ret ==> (segment->slices[g_si].slice_offset == 0 && segment->slices[g_si].slice_count == g_sc &&
                                segment->slices[g_si].block_size == g_sc * MI_SEGMENT_SLICE_SIZE && segment->slices[g_si].is_committed &&
                                !segment->slices[g_si].is_huge == !(segment->kind == MI_SEGMENT_HUGE) && segment->used == g_used0 + 1))
/* SWF_at: every slice of the span that an interior pointer with alignment <= MI_BLOCK_ALIGNMENT_MAX can fall into points back to the head */
__CPROVER_ensures((g_ec_ret && g_sw >= 1 && g_sw < g_sc && g_sw <= MI_MAX_SLICE_OFFSET_COUNT && g_si + g_sw < segment->slice_entries) ==>
                  (segment->slices[g_si + g_sw].slice_offset == VC_SOFF(g_sw) && segment->slices[g_si + g_sw].slice_count == 0 && segment->slices[g_si + g_sw].block_size == 1))
/* ... and so does the last one (needed to coalesce with the span behind it) */
__CPROVER_ensures((g_ec_ret && VC_LAST(segment) > g_si) ==>
                  (segment->slices[VC_LAST(segment)].slice_offset == VC_SOFF(VC_LAST(segment) - g_si) && segment->slices[VC_LAST(segment)].slice_count == 0 && segment->slices[VC_LAST(segment)].block_size == 1))
/* frame: entries in front of the span and behind its last entry are untouched */
__CPROVER_ensures((g_so < g_si || g_so > VC_LAST(segment)) ==> VC_SLICE_SAME(segment));

/* contract of the same function for its callers: what the enforced contract above establishes, nothing about the ghost witnesses' origin */
#define c_span_allocate_use mi_segment_span_allocate

/* ---- span queue operations as recorders (doubly linked list surgery; enforced separately below) ---- */
size_t g_push_n; mi_span_queue_t* g_push_sq; mi_slice_t* g_push_slice;
static void c_sq_push_rec(mi_span_queue_t* sq, mi_slice_t* slice)
__CPROVER_requires(1) __CPROVER_assigns(g_push_n, g_push_sq, g_push_slice, slice->block_size, slice->prev, slice->next)
__CPROVER_ensures(g_push_n == __CPROVER_old(g_push_n) + 1 && g_push_sq == sq && g_push_slice == slice && slice->block_size == 0);
size_t g_del_n; mi_span_queue_t* g_del_sq; mi_slice_t* g_del_slice; mi_slice_t* g_del_slice2;
static void c_sq_delete_rec(mi_span_queue_t* sq, mi_slice_t* slice)
__CPROVER_requires(1) __CPROVER_assigns(g_del_n, g_del_sq, g_del_slice, g_del_slice2, slice->block_size, slice->prev, slice->next)
__CPROVER_ensures(g_del_n == __CPROVER_old(g_del_n) + 1 && g_del_sq == sq && g_del_slice == slice && g_del_slice2 == __CPROVER_old(g_del_slice) && slice->block_size == 1);
size_t g_sp_n; uint8_t* g_sp_p; size_t g_sp_size;
static void c_schedule_purge_rec(mi_segment_t* segment, uint8_t* p, size_t size)
__CPROVER_requires(1) __CPROVER_assigns(g_sp_n, g_sp_p, g_sp_size, segment->commit_mask, segment->purge_mask, segment->purge_expire)
__CPROVER_ensures(g_sp_n == __CPROVER_old(g_sp_n) + 1 && g_sp_p == p && g_sp_size == size);

/* ---- page (or left-over) -> free span ---- */
#define VC_SC1            (g_sc == 0 ? (size_t)1 : g_sc)
#define VC_QUEUED(s)      ((s)->kind != MI_SEGMENT_HUGE && (s)->thread_id != 0)
static void mi_segment_span_free(mi_segment_t* segment, size_t slice_index, size_t slice_count, bool allow_purge, mi_segments_tld_t* tld)
__CPROVER_requires(VC_SPAN_SEG(segment) && slice_index == g_si && slice_count == g_sc && g_push_n == 0 && g_sp_n == 0)
__CPROVER_requires(g_si < segment->slice_entries && VC_SC1 <= MI_SLICES_PER_SEGMENT && g_si + VC_SC1 <= segment->slice_entries)
__CPROVER_requires(__CPROVER_is_fresh(tld, sizeof(mi_segments_tld_t)))
__CPROVER_assigns(segment->slices, segment->commit_mask, segment->purge_mask, segment->purge_expire,
                  g_push_n, g_push_sq, g_push_slice, g_sp_n, g_sp_p, g_sp_size)
/* head: free (block_size 0), carries the count; last entry points back to the head and is free too */
__CPROVER_ensures(segment->slices[g_si].slice_offset == 0 && segment->slices[g_si].slice_count == VC_SC1 && segment->slices[g_si].block_size == 0)
__CPROVER_ensures(VC_SC1 > 1 ==> (segment->slices[g_si + VC_SC1 - 1].slice_offset == VC_SOFF(VC_SC1 - 1) && segment->slices[g_si + VC_SC1 - 1].slice_count == 0 &&
                                  segment->slices[g_si + VC_SC1 - 1].block_size == 0))
/* it goes onto the span queue of its size (bin covers the count) unless the segment is huge or abandoned */
__CPROVER_ensures(VC_QUEUED(segment) ==> (g_push_n == 1 && g_push_slice == &segment->slices[g_si] && __CPROVER_same_object(g_push_sq, tld) &&
                                          g_push_sq == &tld->spans[mi_slice_bin8(g_sc)]))
__CPROVER_ensures(!VC_QUEUED(segment) ==> g_push_n == 0)
/* C18/C13: exactly the span's memory is offered for purging, and only when the caller allows it */
__CPROVER_ensures(allow_purge ==> (g_sp_n == 1 && __CPROVER_same_object(g_sp_p, segment) && __CPROVER_POINTER_OFFSET(g_sp_p) == g_si * MI_SEGMENT_SLICE_SIZE && g_sp_size == VC_SC1 * MI_SEGMENT_SLICE_SIZE))
__CPROVER_ensures(!allow_purge ==> g_sp_n == 0)
/* frame */
__CPROVER_ensures((g_so < g_si || g_so >= g_si + VC_SC1 || (g_so > g_si && g_so < g_si + VC_SC1 - 1)) ==> VC_SLICE_SAME(segment));
#endif

#ifdef VC_CBMC
/* ---- split and coalesce: both only re-label slices through mi_segment_span_free (recorder here; its own contract is above) ---- */
size_t g_sf_n, g_sf_idx, g_sf_cnt; bool g_sf_purge;
static void c_span_free_rec(mi_segment_t* segment, size_t slice_index, size_t slice_count, bool allow_purge, mi_segments_tld_t* tld)
__CPROVER_requires(slice_index < segment->slice_entries && slice_count >= 1 && slice_index + slice_count <= segment->slice_entries)      /* call-site obligation: inside the table */
__CPROVER_assigns(g_sf_n, g_sf_idx, g_sf_cnt, g_sf_purge)
__CPROVER_ensures(g_sf_n == __CPROVER_old(g_sf_n) + 1 && g_sf_idx == slice_index && g_sf_cnt == slice_count && !g_sf_purge == !allow_purge);
size_t g_rm_n; mi_slice_t* g_rm_a; mi_slice_t* g_rm_b;
static void c_span_remove_rec(mi_slice_t* slice, mi_segments_tld_t* tld)
__CPROVER_requires(slice->block_size == 0 && slice->slice_count >= 1 && slice->slice_offset == 0)                                      /* call-site obligation: a free span head */
__CPROVER_assigns(g_rm_n, g_rm_a, g_rm_b)
__CPROVER_ensures(g_rm_n == __CPROVER_old(g_rm_n) + 1 && g_rm_b == __CPROVER_old(g_rm_a) && g_rm_a == slice);

mi_segment_t* g_sseg;   /* the segment object the harness built */
size_t g_c0;        /* logical: slice count of the span before the call */
/* keep the first slice_count slices, give the rest back as ONE free span directly behind them: the two parts partition the old span */
static void mi_segment_slice_split(mi_segment_t* segment, mi_slice_t* slice, size_t slice_count, mi_segments_tld_t* tld)
__CPROVER_requires(segment == g_sseg && VC_SPAN_SEG2(segment) && segment->kind == MI_SEGMENT_NORMAL && g_si < segment->slice_entries && slice == &segment->slices[g_si])
__CPROVER_requires(slice->slice_count == g_c0 && g_c0 >= 1 && g_si + g_c0 <= segment->slice_entries && slice_count >= 1 && slice_count <= g_c0 && slice->block_size > 0 && g_sf_n == 0)
__CPROVER_requires(((uintptr_t)segment % MI_SEGMENT_SIZE) == 0)
__CPROVER_assigns(segment->slices[g_si].slice_count, g_sf_n, g_sf_idx, g_sf_cnt, g_sf_purge)
__CPROVER_ensures(g_c0 == slice_count ==> (g_sf_n == 0 && segment->slices[g_si].slice_count == g_c0))
__CPROVER_ensures(g_c0 > slice_count ==> (g_sf_n == 1 && g_sf_idx == g_si + slice_count && g_sf_cnt == g_c0 - slice_count && !g_sf_purge && segment->slices[g_si].slice_count == slice_count));

bool g_nf, g_pf;        /* logical: is the span behind / in front free before the call? */
size_t g_nc, g_ph;  /* logical: count of the span behind; head index of the span in front */
#define VC_NEXT_FREE(s)  (g_si + g_c0 < (s)->slice_entries && (s)->slices[g_si + g_c0].block_size == 0)
#define VC_PREV_FREE(s)  (g_si > 0 && (s)->slices[g_ph].block_size == 0)
/* a freed span is merged with the FREE spans directly in front of and behind it -- never with a span in use -- and handed to
   mi_segment_span_free as one span whose size is the sum; used neighbours are left alone */
static mi_slice_t* mi_segment_span_free_coalesce(mi_slice_t* slice, mi_segments_tld_t* tld)
__CPROVER_requires(VC_SPAN_SEG2(g_sseg) && g_si < g_sseg->slice_entries && slice == &g_sseg->slices[g_si] && ((uintptr_t)g_sseg % MI_SEGMENT_SIZE) == 0)
__CPROVER_requires(slice->slice_count == g_c0 && g_c0 >= 1 && g_si + g_c0 <= g_sseg->slice_entries && slice->slice_offset == 0 && g_sf_n == 0 && g_rm_n == 0)
__CPROVER_requires(g_si > 0 ==> g_ph < g_si)
__CPROVER_requires(!g_nf == !VC_NEXT_FREE(g_sseg) && !g_pf == !VC_PREV_FREE(g_sseg))
/* SWF at the neighbours: the slice behind the span is a span head; the slice in front points back to its head g_ph, whose span ends here */
__CPROVER_requires(VC_NEXT_FREE(g_sseg) ==> (g_sseg->slices[g_si + g_c0].slice_count == g_nc && g_nc >= 1 && g_si + g_c0 + g_nc <= g_sseg->slice_entries && g_sseg->slices[g_si + g_c0].slice_offset == 0))
__CPROVER_requires(g_si > 0 ==> (g_ph < g_si && g_sseg->slices[g_si - 1].slice_offset == VC_SOFF(g_si - 1 - g_ph)))
__CPROVER_requires(VC_PREV_FREE(g_sseg) ==> (g_sseg->slices[g_ph].slice_count == g_si - g_ph && g_sseg->slices[g_ph].slice_offset == 0))
__CPROVER_assigns(g_sseg->slices[g_si].slice_count, g_sseg->slices[g_si].slice_offset, g_sseg->slices[g_si].block_size, g_sf_n, g_sf_idx, g_sf_cnt, g_sf_purge, g_rm_n, g_rm_a, g_rm_b)
/* huge segment: only marked free */
__CPROVER_ensures(g_sseg->kind == MI_SEGMENT_HUGE ==> (g_sf_n == 0 && g_rm_n == 0 && g_sseg->slices[g_si].block_size == 0 && __CPROVER_return_value == slice))
/* normal segment: exactly one free span results, covering the old span and its free neighbours, offered for purging */
__CPROVER_ensures(g_sseg->kind == MI_SEGMENT_NORMAL ==> (g_sf_n == 1 && g_sf_purge &&
     g_sf_idx == (g_pf ? g_ph : g_si) &&
     g_sf_cnt == g_c0 + (g_nf ? g_nc : 0) + (g_pf ? g_si - g_ph : 0) &&
     __CPROVER_return_value == &g_sseg->slices[g_sf_idx]))
/* the free neighbours leave their span queues (unless the segment is abandoned: its spans are in no queue) */
__CPROVER_ensures(g_sseg->kind == MI_SEGMENT_NORMAL ==> g_rm_n == (g_sseg->thread_id == 0 ? 0 : (g_nf ? 1 : 0) + (g_pf ? 1 : 0)))
/* merged into the span in front: the old head becomes an interior slice pointing back to the new head */
__CPROVER_ensures((g_sseg->kind == MI_SEGMENT_NORMAL && g_pf) ==> (g_sseg->slices[g_si].slice_count == 0 && g_sseg->slices[g_si].slice_offset == VC_SOFF(g_si - g_ph)));
#endif
