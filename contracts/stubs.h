/* stubs.h -- the trusted boundary: contracts that are ASSUMED (replace-call-with-contract) and never
   enforced, plus empty bodies for diagnostics/statistics.  Every use is listed in evidence.trusted_base. */
#ifndef VC_STUBS_H
#define VC_STUBS_H
#ifdef VC_CBMC

/* ---- ghost recorders of OS calls ---- */
size_t   g_unmap_n;        /* number of _mi_prim_free calls */
void*    g_unmap_base;     /* arguments of the last one */
size_t   g_unmap_size;
size_t   g_unmap_bytes;    /* sum of all sizes passed to _mi_prim_free */
size_t   g_map_n;          /* number of successful _mi_prim_alloc calls */
size_t   g_map_bytes;      /* sum of sizes successfully mapped */
size_t   g_commit_n, g_decommit_n, g_reset_n;   /* number of calls */
void*    g_commit_addr;  size_t g_commit_size;  /* last commit */
void*    g_purge_addr;   size_t g_purge_size;   /* last decommit/reset */
int      g_errno_msg;      /* last code passed to _mi_error_message (0 = none) */
size_t   g_error_n;

int _mi_prim_free(void* addr, size_t size)
__CPROVER_requires(1)
__CPROVER_assigns(g_unmap_n, g_unmap_base, g_unmap_size, g_unmap_bytes)
__CPROVER_ensures(g_unmap_n == __CPROVER_old(g_unmap_n) + 1 && g_unmap_base == addr && g_unmap_size == size)
__CPROVER_ensures(g_unmap_bytes == __CPROVER_old(g_unmap_bytes) + size);

/* may fail at every call; on success a fresh, page-aligned object; the alignment hint is NOT honoured */
int _mi_prim_alloc(void* hint_addr, size_t size, size_t try_alignment, bool commit, bool allow_large, bool* is_large, bool* is_zero, void** addr)
__CPROVER_requires(size > 0 && __CPROVER_w_ok(is_large, 1) && __CPROVER_w_ok(is_zero, 1) && __CPROVER_w_ok(addr, sizeof(void*)))
__CPROVER_assigns(*is_large, *is_zero, *addr, g_map_n, g_map_bytes)
__CPROVER_ensures((__CPROVER_return_value != 0) ==> (*addr == NULL && g_map_n == __CPROVER_old(g_map_n) && g_map_bytes == __CPROVER_old(g_map_bytes)))
__CPROVER_ensures((__CPROVER_return_value == 0) ==> (__CPROVER_is_fresh(*addr, size) && g_map_n == __CPROVER_old(g_map_n) + 1 && g_map_bytes == __CPROVER_old(g_map_bytes) + size));

int g_prim_commit_err, g_prim_decommit_err, g_prim_reset_err;   /* logical: what the OS answers (any value) */
bool g_prim_commit_zero, g_prim_needs_recommit;
int _mi_prim_commit(void* addr, size_t size, bool* is_zero)
__CPROVER_requires(__CPROVER_w_ok(is_zero, 1))
__CPROVER_assigns(*is_zero, g_commit_n, g_commit_addr, g_commit_size)
__CPROVER_ensures(g_commit_n == __CPROVER_old(g_commit_n) + 1 && g_commit_addr == addr && g_commit_size == size)
__CPROVER_ensures(__CPROVER_return_value == g_prim_commit_err && !*is_zero == !g_prim_commit_zero);

int _mi_prim_decommit(void* addr, size_t size, bool* needs_recommit)
__CPROVER_requires(__CPROVER_w_ok(needs_recommit, 1))
__CPROVER_assigns(*needs_recommit, g_decommit_n, g_purge_addr, g_purge_size)
__CPROVER_ensures(g_decommit_n == __CPROVER_old(g_decommit_n) + 1 && g_purge_addr == addr && g_purge_size == size)
__CPROVER_ensures(__CPROVER_return_value == g_prim_decommit_err && !*needs_recommit == !g_prim_needs_recommit);

int _mi_prim_reset(void* addr, size_t size)
__CPROVER_requires(1)
__CPROVER_assigns(g_reset_n, g_purge_addr, g_purge_size)
__CPROVER_ensures(g_reset_n == __CPROVER_old(g_reset_n) + 1 && g_purge_addr == addr && g_purge_size == size && __CPROVER_return_value == g_prim_reset_err);

int _mi_prim_protect(void* addr, size_t size, bool protect)
__CPROVER_requires(1) __CPROVER_assigns() __CPROVER_ensures(1);

/* virtual clock: any value; the harness fixes it through g_now */
int64_t g_now;
mi_msecs_t _mi_prim_clock_now(void)
__CPROVER_requires(1) __CPROVER_assigns() __CPROVER_ensures(__CPROVER_return_value == g_now);
mi_msecs_t _mi_clock_now(void)
__CPROVER_requires(1) __CPROVER_assigns() __CPROVER_ensures(__CPROVER_return_value == g_now);

/* options: every option may have any value in its documented sign/range; the harness draws the value a
   function reads through the logical variable of that option */
long g_opt[64];
long mi_option_get(mi_option_t option)
__CPROVER_requires(1) __CPROVER_assigns()
__CPROVER_ensures((option >= 0 && option < 64) ==> __CPROVER_return_value == g_opt[option]);
bool mi_option_is_enabled(mi_option_t option)
__CPROVER_requires(1) __CPROVER_assigns()
__CPROVER_ensures((option >= 0 && option < 64) ==> __CPROVER_return_value == (g_opt[option] != 0));
long mi_option_get_clamp(mi_option_t option, long min, long max)
__CPROVER_requires(1) __CPROVER_assigns()
__CPROVER_ensures((option >= 0 && option < 64) ==> __CPROVER_return_value == (g_opt[option] < min ? min : (g_opt[option] > max ? max : g_opt[option])));

long _mi_option_get_fast(mi_option_t option)
__CPROVER_requires(1) __CPROVER_assigns()
__CPROVER_ensures((option >= 0 && option < 64) ==> __CPROVER_return_value == g_opt[option]);
bool g_preloading;
bool _mi_preloading(void)
__CPROVER_requires(1) __CPROVER_assigns() __CPROVER_ensures(__CPROVER_return_value == g_preloading);

#endif /* VC_CBMC */

/* ---- diagnostics and statistics: empty bodies (not modelled; no effect on allocator state) ---- */
#ifndef VC_HAVE_OPTIONS_C
void _mi_warning_message(const char* fmt, ...) { (void)fmt; }
void _mi_verbose_message(const char* fmt, ...) { (void)fmt; }
void _mi_trace_message(const char* fmt, ...)   { (void)fmt; }
void _mi_message(const char* fmt, ...)          { (void)fmt; }
#ifndef VC_OWN_ERROR_MESSAGE
void _mi_error_message(int err, const char* fmt, ...) { (void)err; (void)fmt; }
#endif
#endif
#ifndef VC_HAVE_STATS_C
void _mi_stat_increase(mi_stat_count_t* stat, size_t amount) { (void)stat; (void)amount; }
void _mi_stat_decrease(mi_stat_count_t* stat, size_t amount) { (void)stat; (void)amount; }
void _mi_stat_counter_increase(mi_stat_counter_t* stat, size_t amount) { (void)stat; (void)amount; }
#endif
#endif
