/* page_ops.h -- page level operations of the real page.c (+page-queue.c) (C01, C08, C10). Included AFTER src/page.c. */
#ifdef VC_CBMC
mi_heap_t* g_pheap;
size_t g_enq_n; mi_page_queue_t* g_enq_to; mi_page_queue_t* g_enq_from; mi_page_t* g_enq_page;
static void c_enqueue_from_rec(mi_page_queue_t* to, mi_page_queue_t* from, mi_page_t* page)
__CPROVER_requires(1) __CPROVER_assigns(g_enq_n, g_enq_to, g_enq_from, g_enq_page)
__CPROVER_ensures(g_enq_n == __CPROVER_old(g_enq_n) + 1 && g_enq_to == to && g_enq_from == from && g_enq_page == page);
size_t g_collect_n;
void c_page_free_collect_rec(mi_page_t* page, bool force) __CPROVER_requires(1) __CPROVER_assigns(g_collect_n) __CPROVER_ensures(g_collect_n == __CPROVER_old(g_collect_n) + 1);

#define VC_PAGE_HEAP_OK(page) (__CPROVER_is_fresh(page, sizeof(mi_page_t)) && __CPROVER_is_fresh(g_pheap, sizeof(mi_heap_t)) && (page)->xheap == (uintptr_t)g_pheap && \
   (page)->block_size >= 8 && (page)->block_size <= ((size_t)1 << 40) && g_enq_n == 0)

/* a full page that got a free block goes back from the full queue to the queue of its size class; its other flag is untouched */
void _mi_page_unfull(mi_page_t* page)
__CPROVER_requires(VC_PAGE_HEAP_OK(page))
__CPROVER_assigns(page->flags, g_enq_n, g_enq_to, g_enq_from, g_enq_page)
__CPROVER_ensures(!__CPROVER_old(page->flags.x.in_full) ==> g_enq_n == 0)
__CPROVER_ensures(__CPROVER_old(page->flags.x.in_full) ==> (g_enq_n == 1 && g_enq_page == page && g_enq_from == &g_pheap->pages[MI_BIN_FULL] &&
     __CPROVER_same_object(g_enq_to, g_pheap) && g_enq_to >= &g_pheap->pages[1] && g_enq_to <= &g_pheap->pages[MI_BIN_HUGE]))
/* the size queue chosen is the one of the page's block size (the real bin function, C16) or the huge queue */
__CPROVER_ensures((__CPROVER_old(page->flags.x.in_full) && !page->is_huge && page->block_size <= MI_MEDIUM_OBJ_SIZE_MAX) ==>
     (_mi_heap_empty.pages[g_enq_to - g_pheap->pages].block_size >= page->block_size))
__CPROVER_ensures((__CPROVER_old(page->flags.x.in_full) && (page->is_huge || page->block_size > MI_MEDIUM_OBJ_SIZE_MAX)) ==> g_enq_to == &g_pheap->pages[MI_BIN_HUGE])
__CPROVER_ensures(page->flags.x.has_aligned == __CPROVER_old(page->flags.x.has_aligned))
__CPROVER_ensures(page->flags.x.in_full == __CPROVER_old(page->flags.x.in_full));      /* (the queue move itself clears it: contract of enqueue_from) */

/* a page without free blocks goes to the full queue and is collected right away */
static void mi_page_to_full(mi_page_t* page, mi_page_queue_t* pq)
__CPROVER_requires(VC_PAGE_HEAP_OK(page) && g_collect_n == 0)
__CPROVER_assigns(g_enq_n, g_enq_to, g_enq_from, g_enq_page, g_collect_n)
__CPROVER_ensures(page->flags.x.in_full ? (g_enq_n == 0 && g_collect_n == 0) : (g_enq_n == 1 && g_enq_page == page && g_enq_to == &g_pheap->pages[MI_BIN_FULL] && g_enq_from == pq && g_collect_n == 1));

/* ---- extending the free list only within the reserved capacity ---- */
size_t g_ext_n, g_ext_bsize, g_ext_extend; uint16_t g_cap0;
static void c_free_list_extend_rec(mi_page_t* const page, const size_t bsize, const size_t extend, mi_stats_t* const stats)
__CPROVER_requires(extend >= 1 && page->capacity + extend <= page->reserved && bsize == page->block_size)     /* call-site obligations */
__CPROVER_assigns(g_ext_n, g_ext_bsize, g_ext_extend) __CPROVER_ensures(g_ext_n == __CPROVER_old(g_ext_n) + 1 && g_ext_bsize == bsize && g_ext_extend == extend);
static void mi_page_extend_free(mi_heap_t* heap, mi_page_t* page, mi_tld_t* tld)
__CPROVER_requires(__CPROVER_is_fresh(page, sizeof(mi_page_t)) && __CPROVER_is_fresh(tld, sizeof(mi_tld_t)) && page->block_size == VC_BS && page->capacity == g_cap0 && g_cap0 <= page->reserved && g_ext_n == 0)
__CPROVER_assigns(page->capacity, g_ext_n, g_ext_bsize, g_ext_extend)
/* nothing to do when blocks are still available or the page is at its reserved capacity */
__CPROVER_ensures((page->free != NULL || g_cap0 >= page->reserved) ==> (g_ext_n == 0 && page->capacity == g_cap0))
/* otherwise exactly one extension by at least one block, never beyond `reserved`, at most about one OS page worth of blocks (but at least MI_MIN_EXTEND) */
__CPROVER_ensures((page->free == NULL && g_cap0 < page->reserved) ==> (g_ext_n == 1 && g_ext_bsize == VC_BS && g_ext_extend >= 1 && page->capacity == g_cap0 + g_ext_extend &&
     page->capacity <= page->reserved && g_ext_extend <= (VC_BS >= MI_MAX_EXTEND_SIZE ? MI_MIN_EXTEND : (MI_MAX_EXTEND_SIZE / VC_BS < MI_MIN_EXTEND ? MI_MIN_EXTEND : MI_MAX_EXTEND_SIZE / VC_BS))));
#endif

#ifdef VC_CBMC
/* ================= the generic allocation path (C04, C06, C07, C08) =================
   (no ghost pointer is dereferenced and no callee contract returns a pre-existing pointer: both make the queries explode;
   the page search yields a fresh page descriptor or NULL, and the page allocator records the facts about the page it was given) */
bool g_f1_null, g_f2_null;                    /* logical: does the first / second page search fail? (used by stubs/bodies/find_page.c) */
size_t g_find_n, g_find_size; size_t g_collect2_n, g_collect2_forced_n; size_t g_drain_n, g_deferred_n;
size_t g_pm_n; bool g_pm_zero; size_t g_pm_size; void* g_pm_ret; bool g_pm_huge, g_pm_full; size_t g_pm_bs;
size_t g_tofull_n; size_t g_mz_n; void* g_mz_p; size_t g_mz_size;
static mi_page_t* c_find_page_rec(mi_heap_t* heap, size_t size, size_t huge_alignment)
__CPROVER_requires(1) __CPROVER_assigns(g_find_n, g_find_size)
__CPROVER_ensures(g_find_n == __CPROVER_old(g_find_n) + 1 && g_find_size == size)
__CPROVER_ensures((__CPROVER_old(g_find_n) == 0 ? g_f1_null : g_f2_null) ? __CPROVER_return_value == NULL : __CPROVER_is_fresh(__CPROVER_return_value, sizeof(mi_page_t)));
void mi_heap_collect(mi_heap_t* heap, bool force)
__CPROVER_requires(1) __CPROVER_assigns(g_collect2_n, g_collect2_forced_n)
__CPROVER_ensures(g_collect2_n == __CPROVER_old(g_collect2_n) + 1 && g_collect2_forced_n == __CPROVER_old(g_collect2_forced_n) + (force ? 1 : 0));
bool c_delayed_free_partial_rec(mi_heap_t* heap) __CPROVER_requires(1) __CPROVER_assigns(g_drain_n) __CPROVER_ensures(g_drain_n == __CPROVER_old(g_drain_n) + 1);
void _mi_deferred_free(mi_heap_t* heap, bool force) __CPROVER_requires(1) __CPROVER_assigns(g_deferred_n) __CPROVER_ensures(g_deferred_n == __CPROVER_old(g_deferred_n) + 1);
#define VC_PM_REC(z) (g_pm_n == __CPROVER_old(g_pm_n) + 1 && !g_pm_zero == !(z) && g_pm_size == size && !g_pm_huge == !page->is_huge && g_pm_bs == page->block_size && \
                      !g_pm_full == !(page->reserved == page->used) && __CPROVER_return_value == g_pm_ret)
void* _mi_page_malloc_zero(mi_heap_t* heap, mi_page_t* page, size_t size, bool zero)
__CPROVER_requires(page != NULL) __CPROVER_assigns(g_pm_n, g_pm_zero, g_pm_size, g_pm_huge, g_pm_bs, g_pm_full) __CPROVER_ensures(VC_PM_REC(zero));
void* _mi_page_malloc(mi_heap_t* heap, mi_page_t* page, size_t size)
__CPROVER_requires(page != NULL) __CPROVER_assigns(g_pm_n, g_pm_zero, g_pm_size, g_pm_huge, g_pm_bs, g_pm_full) __CPROVER_ensures(VC_PM_REC(false));
static void c_page_to_full_rec(mi_page_t* page, mi_page_queue_t* pq) __CPROVER_requires(1) __CPROVER_assigns(g_tofull_n) __CPROVER_ensures(g_tofull_n == __CPROVER_old(g_tofull_n) + 1);
static inline void _mi_memzero_aligned(void* dst, size_t n)
__CPROVER_requires(1) __CPROVER_assigns(g_mz_n, g_mz_p, g_mz_size) __CPROVER_ensures(g_mz_n == __CPROVER_old(g_mz_n) + 1 && g_mz_p == dst && g_mz_size == n);
long g_gc0;
void* _mi_malloc_generic(mi_heap_t* heap, size_t size, bool zero, size_t huge_alignment)
__CPROVER_requires(__CPROVER_is_fresh(heap, sizeof(mi_heap_t)) && heap->generic_count == g_gc0 && g_gc0 >= 0 && g_gc0 < ((long)1 << 40) && heap->generic_collect_count <= ((size_t)1 << 40) && g_pm_ret != NULL)
__CPROVER_requires(g_find_n == 0 && g_collect2_n == 0 && g_collect2_forced_n == 0 && g_drain_n == 0 && g_deferred_n == 0 && g_pm_n == 0 && g_tofull_n == 0 && g_mz_n == 0)
__CPROVER_assigns(heap->generic_count, heap->generic_collect_count, g_find_n, g_find_size, g_collect2_n, g_collect2_forced_n, g_drain_n, g_deferred_n, g_pm_n, g_pm_zero, g_pm_size, g_pm_huge, g_pm_bs, g_pm_full, g_tofull_n, g_mz_n, g_mz_p, g_mz_size)
/* C08: every 100th generic allocation drains the delayed frees of other threads */
__CPROVER_ensures(g_drain_n == (g_gc0 + 1 >= 100 ? 1 : 0) && heap->generic_count == (g_gc0 + 1 >= 100 ? 0 : g_gc0 + 1))
/* C07/C06: no page => collect everything once (forced) and retry once; still none => NULL and nothing allocated; a well-formed request
   therefore fails only if the page search failed twice */
__CPROVER_ensures(!g_f1_null ==> (g_find_n == 1 && g_collect2_forced_n == 0))
__CPROVER_ensures(g_f1_null ==> (g_find_n == 2 && g_collect2_forced_n == 1 && g_find_size == size))
__CPROVER_ensures((g_f1_null && g_f2_null) ==> (__CPROVER_return_value == NULL && g_pm_n == 0))
__CPROVER_ensures(!(g_f1_null && g_f2_null) ==> (__CPROVER_return_value == g_pm_ret && g_pm_n == 1 && g_pm_size == size))
/* C04: a zero-initialising request is either zeroed by the page allocator, or -- for a huge page -- zeroed afterwards over the WHOLE usable block size */
__CPROVER_ensures((zero && g_pm_n == 1 && !g_pm_huge) ==> (g_pm_zero && g_mz_n == 0))
__CPROVER_ensures((zero && g_pm_n == 1 && g_pm_huge) ==> (g_mz_n == 1 && g_mz_p == g_pm_ret && g_mz_size == g_pm_bs - MI_PADDING_SIZE))
__CPROVER_ensures(!zero ==> g_mz_n == 0)
/* a page that has no block left goes to the full queue */
__CPROVER_ensures(g_pm_n == 1 ==> (g_tofull_n == (g_pm_full ? 1 : 0)));
#endif
