/* page_ops.h -- page level operations of the real page.c (+page-queue.c) (C01, C08, C10). Included AFTER src/page.c. */
#ifdef VC_CBMC
mi_heap_t* g_pheap;
size_t g_enq_n; mi_page_queue_t* g_enq_to; mi_page_queue_t* g_enq_from; mi_page_t* g_enq_page;
static void c_enqueue_from_rec(mi_page_queue_t* to, mi_page_queue_t* from, mi_page_t* page)
__CPROVER_requires(1) __CPROVER_assigns(g_enq_n, g_enq_to, g_enq_from, g_enq_page)
__CPROVER_ensures(g_enq_n == __CPROVER_old(g_enq_n) + 1 && g_enq_to == to && g_enq_from == from && g_enq_page == page);
size_t g_collect_n;
void c_page_free_collect_rec(mi_page_t* page, bool force) __CPROVER_requires(1) __CPROVER_assigns(g_collect_n) __CPROVER_ensures(g_collect_n == __CPROVER_old(g_collect_n) + 1);

#define VC_PAGE_HEAP_OK(page) (__CPROVER_is_fresh(page, sizeof(mi_page_t)) && __CPROVER_is_fresh(g_pheap, sizeof(mi_heap_t)) && (page)->xheap == (uintptr_t)g_pheap && \
   (page)->block_size >= 8 && (page)->block_size <= ((size_t)1 << 40) && g_enq_n == 0)

/* a full page that got a free block goes back from the full queue to the queue of its size class; its other flag is untouched */
void _mi_page_unfull(mi_page_t* page)
__CPROVER_requires(VC_PAGE_HEAP_OK(page))
__CPROVER_assigns(page->flags, g_enq_n, g_enq_to, g_enq_from, g_enq_page)
__CPROVER_ensures(!__CPROVER_old(page->flags.x.in_full) ==> g_enq_n == 0)
__CPROVER_ensures(__CPROVER_old(page->flags.x.in_full) ==> (g_enq_n == 1 && g_enq_page == page && g_enq_from == &g_pheap->pages[MI_BIN_FULL] &&
     __CPROVER_same_object(g_enq_to, g_pheap) && g_enq_to >= &g_pheap->pages[1] && g_enq_to <= &g_pheap->pages[MI_BIN_HUGE]))
/* the size queue chosen is the one of the page's block size (the real bin function, C16) or the huge queue */
__CPROVER_ensures((__CPROVER_old(page->flags.x.in_full) && !page->is_huge && page->block_size <= MI_MEDIUM_OBJ_SIZE_MAX) ==>
     (_mi_heap_empty.pages[g_enq_to - g_pheap->pages].block_size >= page->block_size))
__CPROVER_ensures((__CPROVER_old(page->flags.x.in_full) && (page->is_huge || page->block_size > MI_MEDIUM_OBJ_SIZE_MAX)) ==> g_enq_to == &g_pheap->pages[MI_BIN_HUGE])
__CPROVER_ensures(page->flags.x.has_aligned == __CPROVER_old(page->flags.x.has_aligned))
__CPROVER_ensures(page->flags.x.in_full == __CPROVER_old(page->flags.x.in_full));      /* (the queue move itself clears it: contract of enqueue_from) */

/* a page without free blocks goes to the full queue and is collected right away */
static void mi_page_to_full(mi_page_t* page, mi_page_queue_t* pq)
__CPROVER_requires(VC_PAGE_HEAP_OK(page) && g_collect_n == 0)
__CPROVER_assigns(g_enq_n, g_enq_to, g_enq_from, g_enq_page, g_collect_n)
__CPROVER_ensures(page->flags.x.in_full ? (g_enq_n == 0 && g_collect_n == 0) : (g_enq_n == 1 && g_enq_page == page && g_enq_to == &g_pheap->pages[MI_BIN_FULL] && g_enq_from == pq && g_collect_n == 1));

/* ---- extending the free list only within the reserved capacity ---- */
size_t g_ext_n, g_ext_bsize, g_ext_extend; uint16_t g_cap0;
static void c_free_list_extend_rec(mi_page_t* const page, const size_t bsize, const size_t extend, mi_stats_t* const stats)
__CPROVER_requires(extend >= 1 && page->capacity + extend <= page->reserved && bsize == page->block_size)     /* call-site obligations */
__CPROVER_assigns(g_ext_n, g_ext_bsize, g_ext_extend) __CPROVER_ensures(g_ext_n == __CPROVER_old(g_ext_n) + 1 && g_ext_bsize == bsize && g_ext_extend == extend);
static void mi_page_extend_free(mi_heap_t* heap, mi_page_t* page, mi_tld_t* tld)
__CPROVER_requires(__CPROVER_is_fresh(page, sizeof(mi_page_t)) && __CPROVER_is_fresh(tld, sizeof(mi_tld_t)) && page->block_size == VC_BS && page->capacity == g_cap0 && g_cap0 <= page->reserved && g_ext_n == 0)
__CPROVER_assigns(page->capacity, g_ext_n, g_ext_bsize, g_ext_extend)
/* nothing to do when blocks are still available or the page is at its reserved capacity */
__CPROVER_ensures((page->free != NULL || g_cap0 >= page->reserved) ==> (g_ext_n == 0 && page->capacity == g_cap0))
/* otherwise exactly one extension by at least one block, never beyond `reserved`, at most about one OS page worth of blocks (but at least MI_MIN_EXTEND) */
__CPROVER_ensures((page->free == NULL && g_cap0 < page->reserved) ==> (g_ext_n == 1 && g_ext_bsize == VC_BS && g_ext_extend >= 1 && page->capacity == g_cap0 + g_ext_extend &&
     page->capacity <= page->reserved && g_ext_extend <= (VC_BS >= MI_MAX_EXTEND_SIZE ? MI_MIN_EXTEND : (MI_MAX_EXTEND_SIZE / VC_BS < MI_MIN_EXTEND ? MI_MIN_EXTEND : MI_MAX_EXTEND_SIZE / VC_BS))));
#endif
