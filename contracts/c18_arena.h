/* c18_arena.h -- purge after the delay without a forced collect: contracts on the real arena.c.
   Included AFTER src/arena.c (the arena type and the file statics are defined there). */
#ifdef VC_CBMC
#ifndef VC_K
#define VC_K 6     /* bound on the number of arenas for the bounded stand-in (B) */
#endif
size_t g_try_purge_n;       /* recorder: calls of mi_arena_try_purge */
bool   g_try_purge_force;   /* arguments of the last call */
int64_t g_try_purge_now;
bool   g_guard_seen;        /* ghost of the interference hook */
size_t g_w;                 /* witness arena index */
size_t g_try_purge_true_n;  /* recorder: how many of those calls reported a purge */

static bool mi_arena_try_purge(mi_arena_t* arena, mi_msecs_t now, bool force)
__CPROVER_requires(arena != NULL)
__CPROVER_assigns(g_try_purge_n, g_try_purge_force, g_try_purge_now, g_try_purge_true_n)
__CPROVER_ensures(g_try_purge_n == __CPROVER_old(g_try_purge_n) + 1 && g_try_purge_force == force && g_try_purge_now == now)
__CPROVER_ensures(g_try_purge_true_n == __CPROVER_old(g_try_purge_true_n) + (__CPROVER_return_value ? 1 : 0));

#undef VC_OPT_SANE
#define VC_OPT_SANE   (g_opt[mi_option_purge_delay] >= -1 && g_opt[mi_option_purge_delay] <= (1L << 24) && \
                       g_opt[mi_option_arena_purge_mult] >= 0 && g_opt[mi_option_arena_purge_mult] <= 1024)
/* arena purge delay = purge_delay * arena_purge_mult: proved once on mi_arena_purge_delay, then used through the
   logical variable g_delay (a symbolic 64-bit product inside every clause makes the queries time out) */
long g_delay;
static long mi_arena_purge_delay(void)
__CPROVER_requires(VC_OPT_SANE)
__CPROVER_assigns()
__CPROVER_ensures(__CPROVER_return_value == g_opt[mi_option_purge_delay] * g_opt[mi_option_arena_purge_mult]);
static long c_arena_purge_delay_use(void)
__CPROVER_requires(1) __CPROVER_assigns() __CPROVER_ensures(__CPROVER_return_value == g_delay);
#define VC_DELAY      g_delay


static void mi_arenas_try_purge(bool force, bool visit_all)
__CPROVER_requires(g_delay >= -1024 && g_delay <= ((long)1 << 34) && g_now >= 0 && g_now < ((int64_t)1 << 62))
__CPROVER_requires(mi_arena_count <= VC_K && g_try_purge_n == 0 && g_try_purge_true_n == 0 && !g_guard_seen)
__CPROVER_requires(g_w < mi_arena_count ==> mi_arenas[g_w] != NULL)
__CPROVER_requires(g_expire0 == mi_arenas_purge_expire)
__CPROVER_assigns(g_try_purge_n, g_try_purge_force, g_try_purge_now, g_try_purge_true_n, mi_arenas_purge_expire, g_guard_seen)
/* expired => an arena purge is attempted, without force */
__CPROVER_ensures((!g_preloading && VC_DELAY > 0 && !force && g_expire0 != 0 && g_expire0 <= g_now && g_w < mi_arena_count)
                  ==> (g_try_purge_n >= 1 && !g_try_purge_force && g_try_purge_now == g_now))
/* not expired (or nothing scheduled) => nothing is purged by a non-forced call */
__CPROVER_ensures((!force && (g_expire0 == 0 || g_expire0 > g_now)) ==> g_try_purge_n == 0)
/* delay -1 (never purge) and delay 0 (purged immediately at schedule time): nothing here, even when forced */
__CPROVER_ensures((VC_DELAY <= 0 || g_preloading) ==> g_try_purge_n == 0)
/* the pass stopped early (it purges at most two arenas per call unless asked to visit all): the global deadline
   stays armed so that the remaining arenas are purged by a later non-forced call */
__CPROVER_ensures((!g_preloading && VC_DELAY > 0 && !visit_all && g_try_purge_true_n >= 2) ==> mi_arenas_purge_expire == g_now + VC_DELAY)
/* every arena was visited and none had anything to purge: the global deadline is cleared */
__CPROVER_ensures((g_try_purge_n >= 1 && g_try_purge_true_n == 0) ==> mi_arenas_purge_expire == 0)
/* a forced call attempts every arena */
__CPROVER_ensures((!g_preloading && VC_DELAY > 0 && force && g_w < mi_arena_count) ==> (g_try_purge_n >= 1 && g_try_purge_force));
#endif
