/* seg_reclaim.h -- who may adopt abandoned segments (C15, C09). Included AFTER src/segment.c; SCALED.
   The cursor over abandoned segments is a contract that yields at most VC_K segments (bounded stand-in for the walk). */
#ifdef VC_CBMC
#ifndef VC_K
#define VC_K 2
#endif
mi_subproc_t* g_subproc;
size_t g_next_n, g_got_n;            /* cursor calls / segments handed out by the cursor */
size_t g_reclaim_n, g_mark_n, g_trypurge_n;
bool g_suit_ret;
#include "contracts/heap_suit.h"     /* VC_SUIT, VC_MEMID_OK, and the contract of _mi_heap_memid_is_suitable (enforced on heap.c, pair heap_memid_suitable) */

void _mi_arena_field_cursor_init(mi_heap_t* heap, mi_subproc_t* subproc, bool visit_all, mi_arena_field_cursor_t* current)
__CPROVER_requires(__CPROVER_w_ok(current, sizeof(*current))) __CPROVER_assigns(*current) __CPROVER_ensures(1);
void _mi_arena_field_cursor_done(mi_arena_field_cursor_t* current)
__CPROVER_requires(1) __CPROVER_assigns() __CPROVER_ensures(1);
/* the cursor is a harness-provided BODY (see harness/seg_reclaim.c): it yields at most VC_K statically allocated, arbitrary segment headers.
   (a contract returning a fresh object made symex case-split every field access over all objects) */
static bool c_check_free_rec(mi_segment_t* segment, size_t slices_needed, size_t block_size, mi_segments_tld_t* tld)
__CPROVER_requires(1) __CPROVER_assigns(segment->used, segment->abandoned)
__CPROVER_ensures(segment->used <= __CPROVER_old(segment->used) && segment->used == segment->abandoned);
/* the adoption itself: MAY ONLY BE ENTERED for a segment that suits the heap, or that holds no live page any more (it is then freed, not kept) */
static mi_segment_t* c_segment_reclaim_rec(mi_segment_t* segment, mi_heap_t* heap, size_t requested_block_size, bool* right_page_reclaimed, mi_segments_tld_t* tld)
__CPROVER_requires(VC_SUIT(segment->memid, heap->arena_id) || segment->used == 0)
__CPROVER_requires(segment->subproc == heap->tld->segments.subproc)
__CPROVER_requires(right_page_reclaimed == NULL || __CPROVER_w_ok(right_page_reclaimed, 1))
__CPROVER_assigns(g_reclaim_n; right_page_reclaimed != NULL: *right_page_reclaimed)
__CPROVER_ensures(g_reclaim_n == __CPROVER_old(g_reclaim_n) + 1 && (__CPROVER_return_value == NULL || __CPROVER_return_value == segment));
void _mi_arena_segment_mark_abandoned(mi_segment_t* segment)
__CPROVER_requires(segment->used == segment->abandoned) __CPROVER_assigns(g_mark_n) __CPROVER_ensures(g_mark_n == __CPROVER_old(g_mark_n) + 1);
static void c_seg_try_purge_rec2(mi_segment_t* segment, bool force)
__CPROVER_requires(1) __CPROVER_assigns(g_trypurge_n) __CPROVER_ensures(g_trypurge_n == __CPROVER_old(g_trypurge_n) + 1);
bool g_clear_ret;
bool _mi_arena_segment_clear_abandoned(mi_segment_t* segment)
__CPROVER_requires(1) __CPROVER_assigns() __CPROVER_ensures(__CPROVER_return_value == g_clear_ret);

/* (the segments-tld is a separate fresh object here; equating the parameter with &heap->tld->segments makes every access a case split over all objects) */
long g_tries;
static long c_reclaim_tries_use(mi_segments_tld_t* tld)      /* (percentage arithmetic with a division: not part of the property) */
__CPROVER_requires(1) __CPROVER_assigns() __CPROVER_ensures(__CPROVER_return_value == g_tries);
#define VC_HEAP_OK(heap, tld) (__CPROVER_is_fresh(heap, sizeof(mi_heap_t)) && __CPROVER_is_fresh((heap)->tld, sizeof(mi_tld_t)) && __CPROVER_is_fresh(tld, sizeof(mi_segments_tld_t)) && \
   __CPROVER_is_fresh(g_subproc, sizeof(mi_subproc_t)) && (heap)->tld->segments.subproc == g_subproc && (tld)->subproc == g_subproc && g_subproc->abandoned_count <= ((size_t)1 << 40) /* a count of segments */ && \
   g_next_n == 0 && g_got_n == 0 && g_reclaim_n == 0 && g_mark_n == 0 && g_trypurge_n == 0)
/* every segment the cursor hands out is either adopted or put back exactly once: nothing is lost, nothing is adopted twice */
#define VC_CONSERVED (g_got_n == g_reclaim_n + g_mark_n)

/* forced collect of the main thread: adopt everything that suits the heap (C15: and nothing else) */
void _mi_abandoned_reclaim_all(mi_heap_t* heap, mi_segments_tld_t* tld)
__CPROVER_requires(VC_HEAP_OK(heap, tld))
__CPROVER_assigns(g_next_n, g_got_n, g_reclaim_n, g_mark_n)
__CPROVER_ensures(VC_CONSERVED);

void _mi_abandoned_collect(mi_heap_t* heap, bool force, mi_segments_tld_t* tld)
__CPROVER_requires(VC_HEAP_OK(heap, tld))
__CPROVER_assigns(g_next_n, g_got_n, g_reclaim_n, g_mark_n, g_trypurge_n, __CPROVER_object_whole(vc_segs))
__CPROVER_ensures(VC_CONSERVED);

static mi_segment_t* mi_segment_try_reclaim(mi_heap_t* heap, size_t needed_slices, size_t block_size, bool* reclaimed, mi_segments_tld_t* tld)
__CPROVER_requires(VC_HEAP_OK(heap, tld) && __CPROVER_is_fresh(reclaimed, 1))
__CPROVER_assigns(*reclaimed, g_next_n, g_got_n, g_reclaim_n, g_mark_n, g_trypurge_n, __CPROVER_object_whole(vc_segs))
__CPROVER_ensures(VC_CONSERVED);

/* reclaim-on-free of one particular segment */
bool _mi_segment_attempt_reclaim(mi_heap_t* heap, mi_segment_t* segment)
__CPROVER_requires(__CPROVER_is_fresh(heap, sizeof(mi_heap_t)) && __CPROVER_is_fresh(heap->tld, sizeof(mi_tld_t)) && __CPROVER_is_fresh(segment, sizeof(mi_segment_t)) && g_reclaim_n == 0 && VC_MEMID_OK(segment->memid))
__CPROVER_assigns(g_reclaim_n)
__CPROVER_ensures(g_reclaim_n <= 1)
/* only abandoned segments of the same sub-process that suit the heap, and only after this thread won the atomic un-abandon */
__CPROVER_ensures(g_reclaim_n == 1 ==> (__CPROVER_old(segment->thread_id) == 0 && segment->subproc == heap->tld->segments.subproc && VC_SUIT(segment->memid, heap->arena_id) && g_clear_ret))
__CPROVER_ensures(__CPROVER_return_value ==> g_reclaim_n == 1);
#endif
