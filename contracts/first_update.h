/* mi_heap_queue_first_update (page-queue.c): the direct table `pages_free_direct[wsize]` used by the small-allocation fast path.  After the head of
   a small size-class queue changed, EVERY word size that maps to that bin must point at the new head (or at the empty page), otherwise
   mi_heap_malloc_small would take a block from a page of the wrong size class (C03/C01).  Witness word size g_fw; its bin g_fwbin and the queue's
   bin g_fqbin are computed by the harness with the real _mi_bin (calls inside contract clauses are mis-instrumented by dfcc). */
#ifdef VC_CBMC
mi_heap_t* g_uheap; size_t g_fqbin, g_fqself, g_fw, g_fwbin; mi_page_t* g_fold;    /* logical: queue bin, witness word size and its bin, direct[g_fw] before */
#define VC_HEAD(pq)   ((pq)->first != NULL ? (pq)->first : (mi_page_t*)&_mi_page_empty)
#define VC_IDXQ(pq)   (((pq)->block_size + sizeof(uintptr_t) - 1) / sizeof(uintptr_t))
static inline void mi_heap_queue_first_update(mi_heap_t* heap, const mi_page_queue_t* pq)
/* the queue belongs to a size class that exists: its bin is the bin of its own block size (g_fqself, computed by the harness with the real _mi_bin) */
__CPROVER_requires(pq->block_size > MI_SMALL_SIZE_MAX || g_fqself == g_fqbin)
__CPROVER_requires(heap == g_uheap && g_fqbin >= 1 && g_fqbin <= MI_BIN_FULL && pq == &heap->pages[g_fqbin] && g_fw < MI_PAGES_DIRECT && heap->pages_free_direct[g_fw] == g_fold)
/* the table is consistent per bin before the call: all word sizes of one bin hold the same page (what this function maintains) */
__CPROVER_requires((g_fwbin == g_fqbin && pq->block_size <= MI_SMALL_SIZE_MAX) ==> heap->pages_free_direct[g_fw] == heap->pages_free_direct[VC_IDXQ(pq)])
__CPROVER_assigns(heap->pages_free_direct)
/* every word size of the queue's bin points at the queue's head afterwards; word sizes of other bins are untouched; large queues have no table entries */
__CPROVER_ensures((g_fwbin == g_fqbin && pq->block_size <= MI_SMALL_SIZE_MAX) ==> heap->pages_free_direct[g_fw] == VC_HEAD(pq))
__CPROVER_ensures((g_fwbin != g_fqbin || pq->block_size > MI_SMALL_SIZE_MAX) ==> heap->pages_free_direct[g_fw] == g_fold);
#endif
