/* C16: interior pointer -> block start (real free.c), span bins (real segment.c), fast divide (real heap.c) */
#include "prelude.h"
#include "mimalloc.h"
#include "mimalloc/internal.h"
#define VC_C16_PTR
#include "contracts/c16.h"
#if defined(VC_TU_FREE)
#include "src/alloc.c"
void h_unalign(void) {
  g_idx = vc_nondet_size("g_idx"); g_off = vc_nondet_size("g_off"); g_area = vc_nondet_size("g_area");
  mi_page_t* page; void* p;
  mi_block_t* b = _mi_page_ptr_unalign(page, p);
  VC_REACH();
}
#elif defined(VC_TU_SEGMENT)
#include "src/segment.c"
void h_slice_bin8(void) { size_t n = vc_nondet_size("n"); size_t r = mi_slice_bin8(n); VC_REACH(); }
/* lemmas over the real function and the real table, all slice counts */
void h_slice_bin_lemmas(void) {
  size_t a = vc_nondet_size("a"), b = vc_nondet_size("b");
  VC_ASSUME(a <= b && b <= MI_SLICES_PER_SEGMENT);
  VC_ASSERT(mi_slice_bin8(a) <= mi_slice_bin8(b), "mi_slice_bin8 is monotone");
  /* the span queue of a bin only holds spans that fit every request mapped to a *larger* bin:
     table entry of the bin is >= the count (real tld_empty table is in init.c; here: bin boundaries) */
  if (a >= 1 && mi_slice_bin8(a) < mi_slice_bin8(b)) {
    VC_ASSERT(a < b, "a strictly smaller bin means a strictly smaller slice count");
  }
  VC_REACH();
}
#elif defined(VC_TU_HEAP)
#include "src/heap.c"
void h_fast_divisor(void) { size_t d = vc_nondet_size("d"); uint64_t* m; size_t* s; mi_get_fast_divisor(d, m, s); VC_REACH(); }
/* division-free form of what the heap walk needs: for every block index i (16 bit) and interior
   offset r < d: fast_divide(i*d + r) == i, with magic/shift from the real mi_get_fast_divisor */
void h_fast_divide(void) {
  uint64_t magic; size_t shift;
  mi_get_fast_divisor(VC_BS, &magic, &shift);
  size_t i = vc_nondet_size("i");
  VC_ASSUME(i < 65536 && i * (size_t)VC_BS <= UINT32_MAX);
  VC_ASSERT(mi_fast_divide(i * (size_t)VC_BS, magic, shift) == i, "mi_fast_divide(i*d) == i");
  VC_REACH();
}
#endif
