/* C08/C09/C15/C18: mi_heap_collect_ex of the real heap.c */
#include "prelude.h"
#include "mimalloc.h"
#include "mimalloc/internal.h"
#include "mimalloc/prim.h"
#include "contracts/stubs.h"
#include "src/heap.c"
#include "contracts/heap_collect.h"
void h_collect_ex(void) { g_is_main = vc_nondet_bool("g_is_main"); g_tid = vc_nondet_size("g_tid"); mi_heap_t* h; mi_heap_collect_ex(h, (mi_collect_t)vc_nondet_int("collect")); VC_REACH(); }
void h_page_collect(void) {
  g_cpage = malloc(sizeof(mi_page_t)); g_cpq = malloc(sizeof(mi_page_queue_t));
  __CPROVER_assume(g_cpage != NULL && g_cpq != NULL);
  g_used_after = vc_nondet_u16("g_used_after"); g_pfc_n = 0; g_segc_n = 0; g_cpf_n = 0; g_cab_n = 0;
  mi_collect_t c = (mi_collect_t)vc_nondet_int("collect"); mi_heap_t* h; void* a2;
  bool r = mi_heap_page_collect(h, g_cpq, g_cpage, &c, a2);
  VC_REACH();
}
