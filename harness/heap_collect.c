/* C08/C09/C15/C18: mi_heap_collect_ex of the real heap.c */
#include "prelude.h"
#include "mimalloc.h"
#include "mimalloc/internal.h"
#include "mimalloc/prim.h"
#include "contracts/stubs.h"
#include "src/heap.c"
#include "contracts/heap_collect.h"
void h_collect_ex(void) { g_is_main = vc_nondet_bool("g_is_main"); g_tid = vc_nondet_size("g_tid"); mi_heap_t* h; mi_heap_collect_ex(h, (mi_collect_t)vc_nondet_int("collect")); VC_REACH(); }
