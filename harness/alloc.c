/* C04/C05/C06: the real alloc.c (which includes free.c and alloc-override.c). */
#include "prelude.h"
#include "mimalloc.h"
#include "mimalloc/internal.h"
#include "mimalloc/prim.h"
#include "contracts/stubs.h"
#include "src/alloc.c"
#include "contracts/alloc.h"
#include "contracts/malloc_dispatch.h"

void h_realloc_zero(void) {
  g_k = vc_nondet_size("g_k"); g_usable_old = vc_nondet_size("g_usable_old"); g_usable_new = vc_nondet_size("g_usable_new");
  g_req_old = vc_nondet_size("g_req_old"); g_pbyte = vc_nondet_u8("g_pbyte");
  mi_heap_t* heap; void* p; size_t newsize = vc_nondet_size("newsize"); bool zero = vc_nondet_bool("zero");
  void* r = _mi_heap_realloc_zero(heap, p, newsize, zero);
  VC_REACH();
}
void h_count_size_overflow(void) { size_t* t; bool r = mi_count_size_overflow(vc_nondet_size("count"), vc_nondet_size("size"), t); VC_REACH(); }
void h_calloc(void)   { mi_heap_t* heap; void* r = mi_heap_calloc(heap, vc_nondet_size("count"), vc_nondet_size("size")); VC_REACH(); }
void h_mallocn(void)  { mi_heap_t* heap; void* r = mi_heap_mallocn(heap, vc_nondet_size("count"), vc_nondet_size("size")); VC_REACH(); }
void h_reallocn(void) { mi_heap_t* heap; void* p; void* r = mi_heap_reallocn(heap, p, vc_nondet_size("count"), vc_nondet_size("size")); VC_REACH(); }
void h_recalloc(void) { mi_heap_t* heap; void* p; void* r = mi_heap_recalloc(heap, p, vc_nondet_size("count"), vc_nondet_size("size")); VC_REACH(); }
void h_reallocf(void) { mi_heap_t* heap; void* p; void* r = mi_heap_reallocf(heap, p, vc_nondet_size("newsize")); VC_REACH(); }
void h_fwd_realloc(void)  { void* p; void* r = mi_realloc(p, vc_nondet_size("newsize")); VC_REACH(); }
void h_fwd_reallocf(void) { void* p; void* r = mi_reallocf(p, vc_nondet_size("newsize")); VC_REACH(); }
void h_fwd_rezalloc(void) { void* p; void* r = mi_rezalloc(p, vc_nondet_size("newsize")); VC_REACH(); }
void h_expand(void) { g_usable_old = vc_nondet_size("g_usable_old"); void* p; void* r = mi_expand(p, vc_nondet_size("newsize")); VC_REACH(); }
/* allocation entry: dispatch and argument passing (contracts/malloc_dispatch.h) */
void h_small_zero(void) { mi_heap_t* heap; void* r = mi_heap_malloc_small_zero(heap, vc_nondet_size("size"), vc_nondet_bool("zero")); VC_REACH(); }
void h_malloc_zero_ex(void) { mi_heap_t* heap; void* r = _mi_heap_malloc_zero_ex(heap, vc_nondet_size("size"), vc_nondet_bool("zero"), vc_nondet_size("huge_alignment")); VC_REACH(); }
void h_malloc_zero(void) { mi_heap_t* heap; void* r = _mi_heap_malloc_zero(heap, vc_nondet_size("size"), vc_nondet_bool("zero")); VC_REACH(); }
void h_heap_malloc(void) { g_usable_new = vc_nondet_size("g_usable_new"); mi_heap_t* heap; void* r = mi_heap_malloc(heap, vc_nondet_size("size")); VC_REACH(); }
void h_heap_zalloc(void) { g_usable_new = vc_nondet_size("g_usable_new"); mi_heap_t* heap; void* r = mi_heap_zalloc(heap, vc_nondet_size("size")); VC_REACH(); }
