/* C03/C01: the direct small-page table of the real page-queue.c; the heap starts as a copy of the real _mi_heap_empty (the size-class table) */
#include "prelude.h"
#include "mimalloc.h"
#include "mimalloc/internal.h"
#include "mimalloc/prim.h"
#include "contracts/stubs.h"
#include "src/init.c"
#include "src/page.c"
#include "contracts/first_update.h"
void h_first_update(void) {
  g_uheap = malloc(sizeof(mi_heap_t));
  __CPROVER_assume(g_uheap != NULL);
  *g_uheap = _mi_heap_empty;                              /* real block sizes per bin */
  mi_page_t* p1 = malloc(sizeof(mi_page_t)); mi_page_t* p2 = malloc(sizeof(mi_page_t));
  __CPROVER_assume(p1 != NULL && p2 != NULL);
  for (size_t i = 0; i < MI_PAGES_DIRECT; i++) { uint8_t c = vc_nd_u8(); g_uheap->pages_free_direct[i] = (c == 0 ? (mi_page_t*)&_mi_page_empty : (c == 1 ? p1 : p2)); }
#ifdef VC_QBIN
  g_fqbin = VC_QBIN;       /* literal queue bin: block size, start and end of the table range are then constants for symbolic execution */
#else
  g_fqbin = vc_nondet_size("g_fqbin");
#endif
  g_fw = vc_nondet_size("g_fw");
  __CPROVER_assume(g_fqbin >= 1 && g_fqbin <= MI_BIN_FULL && g_fw < MI_PAGES_DIRECT);
  g_uheap->pages[g_fqbin].first = (vc_nd_bool() ? NULL : (vc_nd_bool() ? p1 : p2));
  g_fwbin = _mi_bin(g_fw * sizeof(uintptr_t));           /* the real bin function (C16) */
  g_fqself = _mi_bin(g_uheap->pages[g_fqbin].block_size);
  g_fold = g_uheap->pages_free_direct[g_fw];
  mi_heap_queue_first_update(g_uheap, &g_uheap->pages[g_fqbin]);
  VC_REACH();
}
