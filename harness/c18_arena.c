/* C18 (arena part): the real arena.c (+arena-abandon.c), shadow atomics so that the rely "the purge guard is free"
   can be imposed on the function-local static guard. */
#include "prelude.h"
#include "mimalloc.h"
#include "mimalloc/internal.h"
#include "mimalloc/prim.h"
#include "contracts/c16.h"
#include "contracts/stubs.h"
int64_t g_expire0;          /* logical: value of the global expiration before the call */
void*   g_guard_addr;       /* ghost: address of the first unnamed atomic word touched (the purge guard) */
#include "src/arena.c"
#include "contracts/c18_arena.h"

/* interference hook: the only assumption is that the purge guard is free (no other thread is purging right now) */
void vc_interfere(void* addr, size_t size) {
  if (addr != (void*)&mi_arenas_purge_expire && addr != (void*)&mi_arena_count &&
      !(__CPROVER_same_object(addr, mi_arenas))) {
    if (!g_guard_seen) { g_guard_seen = true; __CPROVER_assume(*(uintptr_t*)addr == 0); }
  }
}
void vc_atomic_wrote(void* addr, uintptr_t o, uintptr_t n) { (void)addr; (void)o; (void)n; }
bool vc_spurious_fail(void) { return false; }

void h_arenas_try_purge(void) {
  bool force = vc_nondet_bool("force"), visit_all = vc_nondet_bool("visit_all");
  mi_arenas_try_purge(force, visit_all);
  VC_REACH();
}
void h_arena_purge_delay(void) { long d = mi_arena_purge_delay(); VC_REACH(); }
