/* C16: size classes and address arithmetic -- the real page.c (+page-queue.c) and init.c tables. */
#include "prelude.h"
#include "mimalloc.h"
#include "mimalloc/internal.h"
#include "contracts/c16.h"
#include "src/init.c"
#include "src/page.c"


void h_bin(void)         { size_t s = vc_nondet_size("size"); size_t r = _mi_bin(s); VC_REACH(); }
void h_bin_size(void)    { size_t s = vc_nondet_size("bin"); size_t r = _mi_bin_size(s); VC_REACH(); }
void h_good_size(void)   { size_t s = vc_nondet_size("size"); g_os_page_size = vc_nondet_size("os_page_size"); size_t r = mi_good_size(s); VC_REACH(); }
/* lemmas over the real functions, all sizes (plain cbmc, loop-free => complete) */
void h_good_size_lemmas(void) {
  size_t a = vc_nondet_size("a"), b = vc_nondet_size("b");
  VC_ASSUME(a <= b && b <= MI_MEDIUM_OBJ_SIZE_MAX - MI_PADDING_SIZE);
  size_t ga = mi_good_size(a), gb = mi_good_size(b);
  VC_ASSERT(ga <= gb, "mi_good_size is monotone");
  VC_ASSERT(_mi_bin(a) <= _mi_bin(b), "mi_bin is monotone");
  VC_ASSERT(ga == _mi_bin_size(_mi_bin(a + MI_PADDING_SIZE)), "mi_good_size is the block size of the bin");
#if MI_PADDING_SIZE == 0
  VC_ASSERT(mi_good_size(ga) == ga, "mi_good_size is idempotent");
  VC_ASSERT(_mi_bin(ga) == _mi_bin(a), "bin(good_size(n)) == bin(n): the usable size of malloc(n) is good_size(n)");
#endif
  VC_REACH();
}
void h_align_up(void)    { uintptr_t s = vc_nondet_uptr("sz"); size_t a = vc_nondet_size("alignment"); uintptr_t r = _mi_align_up(s, a); VC_REACH(); }
void h_align_down(void)  { uintptr_t s = vc_nondet_uptr("sz"); size_t a = vc_nondet_size("alignment"); uintptr_t r = _mi_align_down(s, a); VC_REACH(); }
void h_wsize(void)       { size_t s = vc_nondet_size("size"); size_t r = _mi_wsize_from_size(s); VC_REACH(); }
void h_clamp(void)       { size_t r = _mi_clamp(vc_nondet_size("sz"), vc_nondet_size("min"), vc_nondet_size("max")); VC_REACH(); }
void h_pow2(void)        { bool r = _mi_is_power_of_two(vc_nondet_uptr("x")); VC_REACH(); }
