/* C11: the real os.c.  _mi_prim_* are the trusted OS boundary (recorder contracts). */
#include "prelude.h"
#include "mimalloc.h"
#include "mimalloc/internal.h"
#include "mimalloc/prim.h"
#include "contracts/c16.h"
#include "contracts/stubs.h"
#include "contracts/c11.h"
#include "src/os.c"
#include "contracts/os_commit.h"

void h_os_free_ex(void) {
  void* addr; size_t size = vc_nondet_size("size"); bool sc = vc_nondet_bool("still_committed"); mi_memid_t memid;
  _mi_os_free_ex(addr, size, sc, memid);
  VC_REACH();
}
void h_good_alloc_size(void) { mi_os_mem_config.page_size = g_os_page_size; size_t r = _mi_os_good_alloc_size(vc_nondet_size("size")); VC_REACH(); }
void h_os_alloc(void) {
  size_t size = vc_nondet_size("size"); mi_memid_t* memid;
  void* p = _mi_os_alloc(size, memid);
  VC_REACH();
}
void h_os_alloc_aligned(void) {
  size_t size = vc_nondet_size("size"); size_t al = vc_nondet_size("alignment"); mi_memid_t* memid;
  /* the OS page size is a configuration constant read by the real _mi_os_page_size() */
  mi_os_mem_config.page_size = g_os_page_size; mi_os_mem_config.has_partial_free = true;
  void* p = _mi_os_alloc_aligned(size, al, vc_nondet_bool("commit"), vc_nondet_bool("allow_large"), memid);
  VC_REACH();
}
static uint8_t vc_area[1];     /* addresses only: the ranges are never dereferenced by os.c */
static void os_draw(void) { g_area = vc_area; g_aoff = vc_nondet_size("g_aoff"); mi_os_mem_config.page_size = g_os_page_size; g_preloading = vc_nondet_bool("g_preloading"); }
void h_page_align(void) { os_draw(); size_t* ns; void* r = mi_os_page_align_areax(vc_nondet_bool("conservative"), g_area + g_aoff, vc_nondet_size("size"), ns); VC_REACH(); }
void h_os_commit_ex(void) { os_draw(); bool* z; bool r = _mi_os_commit_ex(g_area + g_aoff, vc_nondet_size("size"), z, vc_nondet_size("stat")); VC_REACH(); }
void h_os_purge_ex(void) { os_draw(); bool r = _mi_os_purge_ex(g_area + g_aoff, vc_nondet_size("size"), vc_nondet_bool("allow_reset"), vc_nondet_size("stat")); VC_REACH(); }
