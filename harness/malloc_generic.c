/* C04/C06/C07/C08: the generic allocation path of the real page.c.  init.c is deliberately NOT part of this translation unit:
   mi_page_queue_of() turns the integer page->xheap into a pointer, and CBMC splits such a cast over every object in the program --
   with init.c's statics (main heap, tld, stats) the query does not fit in 20 GB. */
#include "prelude.h"
#include "mimalloc.h"
#include "mimalloc/internal.h"
#include "mimalloc/prim.h"
#ifndef VC_BS
#define VC_BS 48
#endif
#include "contracts/stubs.h"
#include "src/page.c"
#include "contracts/page_ops.h"
/* only reached for an uninitialised heap, which the contract's precondition (a fresh heap object, distinct from _mi_heap_empty) excludes */
mi_heap_t* mi_heap_get_default(void) { __CPROVER_assert(0, "mi_heap_get_default is not reached for an initialised heap"); return (mi_heap_t*)&_mi_heap_empty; }
void h_malloc_generic(void) { g_gc0 = vc_nondet_long("g_gc0"); g_f1_null = vc_nondet_bool("g_f1_null"); g_f2_null = vc_nondet_bool("g_f2_null"); g_find_n = 0; g_collect2_n = 0; g_collect2_forced_n = 0; g_drain_n = 0; g_deferred_n = 0; g_pm_n = 0; g_tofull_n = 0; g_mz_n = 0; mi_heap_t* heap; void* p = _mi_malloc_generic(heap, vc_nondet_size("size"), vc_nondet_bool("zero"), vc_nondet_size("huge_alignment")); VC_REACH(); }
