/* C01/C04: the real alloc.c (+free.c): pop and push of page free lists; flag setters of internal.h */
#include "prelude.h"
#include "mimalloc.h"
#include "mimalloc/internal.h"
#include "mimalloc/prim.h"
#include "contracts/stubs.h"
#include "src/alloc.c"
#include "contracts/page_alloc.h"
static void draw(void) { g_bs = vc_nondet_size("g_bs"); g_k = vc_nondet_size("g_k"); g_used0 = vc_nondet_u16("g_used0"); }
void h_page_malloc(void) { draw(); mi_heap_t* heap; mi_page_t* page; void* p = _mi_page_malloc_zero(heap, page, vc_nondet_size("size"), vc_nondet_bool("zero")); VC_REACH(); }
void h_free_block_local(void) { draw(); mi_page_t* page; mi_block_t* b; mi_free_block_local(page, b, vc_nondet_bool("track"), vc_nondet_bool("check_full")); VC_REACH(); }
void h_set_in_full(void) { mi_page_t* page; mi_page_set_in_full(page, vc_nondet_bool("v")); VC_REACH(); }
void h_set_has_aligned(void) { mi_page_t* page; mi_page_set_has_aligned(page, vc_nondet_bool("v")); VC_REACH(); }
