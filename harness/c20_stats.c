/* C20: the real stats.c -- JSON / buffered output writers */
#include "prelude.h"
#include "mimalloc.h"
#include "mimalloc/internal.h"
#include "mimalloc/prim.h"
#define VC_HAVE_STATS_C
#include "contracts/stubs.h"
#include "src/stats.c"
#include "contracts/c20_stats.h"
void h_heap_buf_print(void) { g_size0 = vc_nondet_size("g_size0"); g_used0 = vc_nondet_size("g_used0"); mi_heap_buf_t* hb; const char* msg; mi_heap_buf_print(hb, msg); VC_REACH(); }
void h_heap_buf_expand(void) { g_size0 = vc_nondet_size("g_size0"); mi_heap_buf_t* hb; bool r = mi_heap_buf_expand(hb); VC_REACH(); }
void h_buffered_out(void) { const char* msg; void* arg; mi_buffered_out(msg, arg); VC_REACH(); }
