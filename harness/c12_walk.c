/* C12: heap walking reports exactly the live blocks -- the real _mi_heap_area_visit_blocks (heap.c) on a page with
   up to VC_CAP blocks of VC_BS bytes (contiguous area), an arbitrary set of up to 3 free blocks at arbitrary positions,
   and a visitor that may stop the walk at any call.  Bounded stand-in: capacity <= VC_CAP (2 full bitmap words + a tail). */
#include "prelude.h"
#include "mimalloc.h"
#include "mimalloc/internal.h"
#include "mimalloc/prim.h"
#include "contracts/stubs.h"
#include "src/heap.c"
#ifndef VC_BS
#define VC_BS 16
#endif
#ifndef VC_CAP
#define VC_CAP 67
#endif
#ifndef VC_CAPMIN
#define VC_CAPMIN 1
#endif
static uint8_t area[VC_CAP * VC_BS];
static mi_page_t pg;
/* segment.c / page.c are not part of this translation unit: the page area is the harness array, and there are no pending frees */
uint8_t* _mi_segment_page_start(const mi_segment_t* segment, const mi_page_t* page, size_t* page_size) { (void)segment; (void)page; if (page_size) *page_size = sizeof(area); return area; }
void _mi_page_free_collect(mi_page_t* page, bool force) { (void)page; (void)force; }

static size_t w_visits, bad_visits, calls, calls_after_stop; static bool stopped; static size_t g_w; static size_t stop_at;
static size_t fidx[3]; static size_t nfree;
static bool is_free(size_t i) { return (nfree > 0 && i == fidx[0]) || (nfree > 1 && i == fidx[1]) || (nfree > 2 && i == fidx[2]); }
static bool visitor(const mi_heap_t* heap, const mi_heap_area_t* a, void* block, size_t block_size, void* arg) {
  (void)heap; (void)a; (void)arg;
  if (stopped) calls_after_stop++;
  calls++;
  const size_t off = (size_t)((uint8_t*)block - area);
  if (off % VC_BS != 0 || off / VC_BS >= pg.capacity || block_size != VC_BS || is_free(off / VC_BS)) bad_visits++;
  if (off == g_w * VC_BS) w_visits++;
  if (calls == stop_at) { stopped = true; return false; }
  return true;
}
void h_visit_blocks(void) {
  size_t cap = vc_nondet_size("cap"); nfree = vc_nondet_size("nfree"); g_w = vc_nondet_size("g_w"); stop_at = vc_nondet_size("stop_at");
  VC_ASSUME(cap >= VC_CAPMIN && cap <= VC_CAP && nfree <= 3 && nfree <= cap && g_w < cap);
  for (int i = 0; i < 3; i++) { fidx[i] = vc_nondet_size("fidx"); VC_ASSUME(fidx[i] < cap); }
  VC_ASSUME(fidx[0] != fidx[1] && fidx[0] != fidx[2] && fidx[1] != fidx[2]);
#ifdef VC_TAILFREE     /* the first 64-block group is completely in use; the free blocks sit in the tail; the visitor never stops */
  VC_ASSUME(nfree >= 1 && nfree <= 2 && fidx[0] >= 64 && fidx[1] >= 64 && fidx[2] >= 64 && stop_at == 0);
#endif
  pg.capacity = (uint16_t)cap; pg.reserved = (uint16_t)cap; pg.used = (uint16_t)(cap - nfree); pg.block_size = VC_BS; pg.page_start = area; pg.local_free = NULL; pg.xthread_free = 0;
  /* the free list: fidx[0] -> fidx[1] -> fidx[2] (first nfree of them) */
  pg.free = (nfree > 0 ? (mi_block_t*)(area + fidx[0] * VC_BS) : NULL);
  for (size_t i = 0; i < 3; i++) { if (i < nfree) ((mi_block_t*)(area + fidx[i] * VC_BS))->next = (i + 1 < nfree ? (mi_encoded_t)(area + fidx[i + 1] * VC_BS) : 0); }
  mi_heap_area_t a; _mi_heap_area_init(&a, &pg);
  VC_ASSERT(a.used == cap - nfree && a.block_size == VC_BS, "the area's used count is the number of live blocks");
  bool ok = _mi_heap_area_visit_blocks(&a, &pg, &visitor, NULL);
  VC_ASSERT(bad_visits == 0, "every reported range is a live block of this page (block aligned, inside the area, not on the free list)");
  VC_ASSERT(calls_after_stop == 0 && (ok == !stopped), "returning false from the visitor stops the walk and is propagated");
  if (!stopped) {
    VC_ASSERT(w_visits == (is_free(g_w) ? 0 : 1), "every live block is reported exactly once, no free block is reported (witness block)");
    VC_ASSERT(calls == cap - nfree, "the number of reported blocks equals the used count");
  } else {
    VC_ASSERT(w_visits <= 1, "no block is reported twice");
  }
  VC_REACH();
}
