/* C01/C03: free-span queue surgery of the real segment.c (SCALED) on harness-built nodes. */
#include "prelude.h"
#include "mimalloc.h"
#include "mimalloc/internal.h"
#include "mimalloc/prim.h"
#include "contracts/c16.h"
#include "contracts/stubs.h"
#include "src/segment.c"
#include "contracts/span_queue.h"
static mi_slice_t* maybe_slice(void) { if (vc_nd_bool()) return NULL; mi_slice_t* p = malloc(sizeof(mi_slice_t)); __CPROVER_assume(p != NULL); return p; }
static mi_slice_t* a_slice(void) { mi_slice_t* p = malloc(sizeof(mi_slice_t)); __CPROVER_assume(p != NULL); return p; }
static void build(void) {
  g_sq = malloc(sizeof(mi_span_queue_t)); g_sl = a_slice(); __CPROVER_assume(g_sq != NULL);
  g_sprev = maybe_slice(); g_snext = maybe_slice();
  /* links are ASSIGNED, not assumed (a pointer field constrained only by a precondition has no provenance in CBMC) */
  g_sfirst = (g_sprev == NULL ? g_sl : (vc_nd_bool() ? g_sprev : a_slice()));
  g_slast  = (g_snext == NULL ? g_sl : (vc_nd_bool() ? g_snext : a_slice()));
  g_sl->prev = g_sprev; g_sl->next = g_snext;
  if (g_sprev != NULL) g_sprev->next = g_sl;
  if (g_snext != NULL) g_snext->prev = g_sl;
  g_sq->first = g_sfirst; g_sq->last = g_slast;
}
static void build_push(void) {      /* a queue that does not contain g_sl: empty, one element, or two distinct ends */
  g_sq = malloc(sizeof(mi_span_queue_t)); g_sl = a_slice(); __CPROVER_assume(g_sq != NULL);
  g_slast = maybe_slice(); g_sfirst = (g_slast == NULL ? NULL : (vc_nd_bool() ? g_slast : a_slice()));
  g_sq->first = g_sfirst; g_sq->last = g_slast; g_sl->prev = NULL; g_sl->next = NULL; g_sprev = NULL; g_snext = NULL;
}
void h_sq_push(void) { build_push(); mi_span_queue_push(g_sq, g_sl); VC_REACH(); }
void h_sq_delete(void) { build(); mi_span_queue_delete(g_sq, g_sl); VC_REACH(); }
void h_sq_delete_absent(void) { build_push(); mi_span_queue_delete(g_sq, g_sl); VC_REACH(); }
void h_span_remove(void) {
  g_stld = malloc(sizeof(mi_segments_tld_t)); g_sl = a_slice(); __CPROVER_assume(g_stld != NULL);
  size_t c = vc_nondet_size("slice_count"); __CPROVER_assume(c >= 1 && c <= MI_SLICES_PER_SEGMENT); g_sl->slice_count = (uint32_t)c;
  g_bin = mi_slice_bin(c); g_sqdel_n = 0;
  mi_segment_span_remove_from_queue(g_sl, g_stld); VC_REACH();
}
