/* C14: concurrent arena claims -- the real bitmap.c under rely/guarantee (shadow <stdatomic.h>).
   Rely  (environment, before every atomic access): other threads may change any bit that is not MINE.
   Guarantee (checked at every atomic write I make): I never clear a bit that is not mine; bits I set were 0.
   `mine` is ghost state maintained by the write hook.  Interference is bounded by VC_K events per run (B(K)):
   a strong CAS may fail at most VC_K times, which closes the retry loops. */
#include "prelude.h"
#include "mimalloc.h"
#include "mimalloc/internal.h"
#include "mimalloc/prim.h"
#include "contracts/stubs.h"
#include "src/bitmap.c"
#ifndef VC_FIELDS
#define VC_FIELDS 3       /* the hooks are written out for exactly 3 fields */
#endif
#ifndef VC_K
#define VC_K 2
#endif
#ifndef VC_IDX
#define VC_IDX 0
#endif
#ifndef VC_COUNT
#define VC_COUNT 70
#endif
/* the bitmap lives inside a larger object, as arena->blocks_inuse[] does inside mi_arena_t (the roll-back loop forms
   &bitmap[idx-1] before comparing it, which must stay inside the object) */
static struct { size_t before[2]; mi_bitmap_field_t bm[VC_FIELDS]; size_t after[2]; } vc_arena;
#define bm vc_arena.bm
static size_t mine[VC_FIELDS];        /* ghost: the bits this thread holds */
static size_t vc_budget;              /* ghost: remaining interference events */
static size_t g_mine0;                /* logical: mine[idx] before the call */
static bool   g_ok = true;            /* ghost: every write so far was a guarantee transition */

/* (no loops in the hooks: under --apply-loop-contracts every loop that is reached needs a contract) */
#define VC_INTERFERE_FIELD(f) \
    if (addr == (void*)&bm[f] && vc_budget > 0 && vc_nondet_bool("interfere")) { \
      size_t v = vc_nondet_size("v"); \
      __CPROVER_assume((v & mine[f]) == (bm[f] & mine[f]));      /* rely: my bits are left alone */ \
      bm[f] = v; vc_budget--; }
#define VC_WROTE_FIELD(f) \
    if (addr == (void*)&bm[f]) { \
      const size_t cleared = o & ~n, set = n & ~o; \
      __CPROVER_assert((cleared & ~mine[f]) == 0, "G: never clears a bit that is not mine"); \
      mine[f] = (mine[f] | set) & ~cleared; }
void vc_interfere(void* addr, size_t size) {
  (void)size;
  VC_INTERFERE_FIELD(0) VC_INTERFERE_FIELD(1) VC_INTERFERE_FIELD(2)
}
void vc_atomic_wrote(void* addr, uintptr_t o, uintptr_t n) {
  VC_WROTE_FIELD(0) VC_WROTE_FIELD(1) VC_WROTE_FIELD(2)
}
bool vc_spurious_fail(void) { return false; }

static void init(void) {
  for (size_t f = 0; f < VC_FIELDS; f++) { bm[f] = vc_nondet_size("bm"); mine[f] = 0; }
  vc_budget = VC_K;
}
/* is bit (global index) b inside [s, s+count) */
#define IN(b, s, count) ((b) >= (s) && (b) - (s) < (count))
static void check_outcome(bool ok, size_t start, size_t count) {
  /* witness bit: either inside the claimed range (then mine and set) or outside (then not mine) */
  size_t b = vc_nondet_size("b"); __CPROVER_assume(b < VC_FIELDS * MI_BITMAP_FIELD_BITS);
  const size_t f = b / MI_BITMAP_FIELD_BITS, bit = b % MI_BITMAP_FIELD_BITS;
  const bool is_mine = ((mine[f] >> bit) & 1) != 0;
  if (ok) {
    __CPROVER_assert(start + count <= VC_FIELDS * MI_BITMAP_FIELD_BITS, "claimed range lies inside the bitmap");
    __CPROVER_assert(is_mine == IN(b, start, count), "I hold exactly the bits of the returned range");
    __CPROVER_assert(!IN(b, start, count) || ((bm[f] >> bit) & 1) != 0, "and they are set");
  } else {
    __CPROVER_assert(!is_mine, "a failed or rolled-back claim leaves nothing reserved");
  }
}

#ifdef VC_CBMC
/* the single-word claim as seen by the multi-word claim (its own obligations are the pairs claim_field_*) */
bool c_claim_field_use(mi_bitmap_t bitmap, size_t idx, const size_t count, mi_bitmap_index_t* bitmap_idx)
__CPROVER_requires(bitmap == bm && idx < VC_FIELDS && count >= 1 && count <= MI_BITMAP_FIELD_BITS && __CPROVER_w_ok(bitmap_idx, sizeof(*bitmap_idx)))
__CPROVER_assigns(bm[idx], mine[idx], *bitmap_idx)
__CPROVER_ensures((bm[idx] & __CPROVER_old(mine[idx])) == (__CPROVER_old(bm[idx]) & __CPROVER_old(mine[idx])))      /* my earlier bits untouched */
__CPROVER_ensures(!__CPROVER_return_value ==> mine[idx] == __CPROVER_old(mine[idx]))
__CPROVER_ensures(__CPROVER_return_value ==> (mi_bitmap_index_field(*bitmap_idx) == idx && mi_bitmap_index_bit_in_field(*bitmap_idx) + count <= MI_BITMAP_FIELD_BITS &&
     mine[idx] == (__CPROVER_old(mine[idx]) | mi_bitmap_mask_(count, mi_bitmap_index_bit_in_field(*bitmap_idx))) &&
     (__CPROVER_old(mine[idx]) & mi_bitmap_mask_(count, mi_bitmap_index_bit_in_field(*bitmap_idx))) == 0 &&
     (bm[idx] & mine[idx]) == mine[idx]));
#endif
/* multi-word claim with roll-back: geometry (idx, count) concrete per run, every word and all interference symbolic */
void h_claim_across(void) {
  init();
  mi_bitmap_index_t bi = 0;
  bool ok = mi_bitmap_try_find_claim_field_across(bm, VC_FIELDS, VC_IDX, VC_COUNT, 0, &bi);
  check_outcome(ok, bi, VC_COUNT);
  VC_REACH();
}
/* single-word claim: field index and count symbolic */
void h_claim_field(void) {
  init();
  size_t idx = vc_nondet_size("idx"), count = vc_nondet_size("count");
  __CPROVER_assume(idx < VC_FIELDS && count >= 1 && count <= MI_BITMAP_FIELD_BITS);
  g_mine0 = mine[idx];
  mi_bitmap_index_t bi = 0;
  bool ok = _mi_bitmap_try_find_claim_field(bm, idx, count, &bi);
  if (ok) { __CPROVER_assert(mi_bitmap_index_field(bi) == idx && mi_bitmap_index_bit_in_field(bi) + count <= MI_BITMAP_FIELD_BITS, "claim stays inside the field"); }
  check_outcome(ok, bi, count);
  VC_REACH();
}
/* claim an exact range / release / double-free detection */
void h_try_claim(void) {
  init();
  size_t idx = vc_nondet_size("idx"), bit = vc_nondet_size("bit"), count = vc_nondet_size("count");
  __CPROVER_assume(idx < VC_FIELDS && count >= 1 && bit < MI_BITMAP_FIELD_BITS && count <= MI_BITMAP_FIELD_BITS - bit);
  mi_bitmap_index_t bi = mi_bitmap_index_create(idx, bit);
  bool ok = _mi_bitmap_try_claim(bm, VC_FIELDS, count, bi);
  check_outcome(ok, bi, count);
  if (ok) {
    bool all = _mi_bitmap_unclaim(bm, VC_FIELDS, count, bi);
    __CPROVER_assert(all, "releasing a range I hold reports that all bits were set");
    check_outcome(false, bi, count);
    vc_budget = 0;     /* quiescent: a second release of the same range is reported (unless someone re-claimed it meanwhile) */
    size_t before = bm[idx];
    bool again = _mi_bitmap_unclaim(bm, VC_FIELDS, count, bi);
    __CPROVER_assert(again == ((before & mi_bitmap_mask_(count, bit)) == mi_bitmap_mask_(count, bit)), "unclaim reports whether all bits were still set (double free detector)");
  }
  VC_REACH();
}
/* release / claim across fields: exactly the range changes */
void h_unclaim_across(void) {
  init(); vc_budget = 0;
  size_t start = vc_nondet_size("start"), count = vc_nondet_size("count");
  __CPROVER_assume(count >= 1 && start < VC_FIELDS * MI_BITMAP_FIELD_BITS && count <= VC_FIELDS * MI_BITMAP_FIELD_BITS - start);
  for (size_t f = 0; f < VC_FIELDS; f++) mine[f] = bm[f];     /* everything set is mine (so that any clear is allowed): frame check below */
  size_t b = vc_nondet_size("b"); __CPROVER_assume(b < VC_FIELDS * MI_BITMAP_FIELD_BITS);
  const bool before = ((bm[b / MI_BITMAP_FIELD_BITS] >> (b % MI_BITMAP_FIELD_BITS)) & 1) != 0;
  size_t w = vc_nondet_size("w"); __CPROVER_assume(IN(w, start, count));
  const bool wbefore = ((bm[w / MI_BITMAP_FIELD_BITS] >> (w % MI_BITMAP_FIELD_BITS)) & 1) != 0;
  bool all = _mi_bitmap_unclaim_across(bm, VC_FIELDS, count, (mi_bitmap_index_t)start);
  const bool after = ((bm[b / MI_BITMAP_FIELD_BITS] >> (b % MI_BITMAP_FIELD_BITS)) & 1) != 0;
  __CPROVER_assert(after == (before && !IN(b, start, count)), "unclaim_across clears exactly the bits of the range");
  __CPROVER_assert(!all || wbefore, "it reports 'all were set' only if every bit of the range was set (witness)");
  VC_REACH();
}
void h_claim_range_across(void) {
  init(); vc_budget = 0;
  size_t start = vc_nondet_size("start"), count = vc_nondet_size("count");
  __CPROVER_assume(count >= 1 && start < VC_FIELDS * MI_BITMAP_FIELD_BITS && count <= VC_FIELDS * MI_BITMAP_FIELD_BITS - start);
  size_t b = vc_nondet_size("b"); __CPROVER_assume(b < VC_FIELDS * MI_BITMAP_FIELD_BITS);
  const bool before = ((bm[b / MI_BITMAP_FIELD_BITS] >> (b % MI_BITMAP_FIELD_BITS)) & 1) != 0;
  bool any_zero = false; size_t already = 0;
  bool all_zero = _mi_bitmap_claim_across(bm, VC_FIELDS, count, (mi_bitmap_index_t)start, &any_zero, &already);
  const bool after = ((bm[b / MI_BITMAP_FIELD_BITS] >> (b % MI_BITMAP_FIELD_BITS)) & 1) != 0;
  __CPROVER_assert(after == (before || IN(b, start, count)), "claim_across sets exactly the bits of the range");
  __CPROVER_assert(!(all_zero && IN(b, start, count)) || !before, "'all were zero' only if every bit of the range was zero (witness)");
  __CPROVER_assert(!(IN(b, start, count) && !before) || any_zero, "'any zero' is reported when some bit of the range was zero (witness)");
  __CPROVER_assert(all_zero ? already == 0 : already <= count, "already-set count is consistent");
  VC_REACH();
}
