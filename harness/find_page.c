/* C06: the page search entry of the real page.c: an oversized request fails cleanly before anything is touched. */
#include "prelude.h"
#include "mimalloc.h"
#include "mimalloc/internal.h"
#include "mimalloc/prim.h"
/* dfcc cannot pass its write-set through a variadic call: the error path `_mi_error_message(code, fmt, ...)` is redirected, at
   every call site of this translation unit, to a recorder of the error code (as in harness/c17.c) */
int g_err; size_t g_err_n;
void vc_error(int err) { g_err = err; g_err_n++; }
#define VC_OWN_ERROR_MESSAGE
#include "contracts/stubs.h"
#define _mi_error_message(err, ...) vc_error(err)
#include "src/page.c"
#undef _mi_error_message
#ifdef VC_CBMC
size_t g_lh_n, g_lh_size, g_lh_align; size_t g_ff_n, g_ff_size;
static mi_page_t* c_large_huge_rec(mi_heap_t* heap, size_t size, size_t page_alignment)
__CPROVER_requires(1) __CPROVER_assigns(g_lh_n, g_lh_size, g_lh_align) __CPROVER_ensures(g_lh_n == __CPROVER_old(g_lh_n) + 1 && g_lh_size == size && g_lh_align == page_alignment);
static mi_page_t* c_find_free_rec(mi_heap_t* heap, size_t size)
__CPROVER_requires(size <= MI_MEDIUM_OBJ_SIZE_MAX)        /* call-site obligation: only sizes that have a size-class queue */
__CPROVER_assigns(g_ff_n, g_ff_size) __CPROVER_ensures(g_ff_n == __CPROVER_old(g_ff_n) + 1 && g_ff_size == size);
static mi_page_t* mi_find_page(mi_heap_t* heap, size_t size, size_t huge_alignment)
__CPROVER_requires(g_lh_n == 0 && g_ff_n == 0 && g_err_n == 0 && size >= MI_PADDING_SIZE)
__CPROVER_assigns(g_lh_n, g_lh_size, g_lh_align, g_ff_n, g_ff_size, g_err, g_err_n)
/* C06: a request above MI_MAX_ALLOC_SIZE fails with EOVERFLOW and reaches neither allocator */
__CPROVER_ensures(size - MI_PADDING_SIZE > MI_MAX_ALLOC_SIZE ==> (__CPROVER_return_value == NULL && g_err_n == 1 && g_err == EOVERFLOW && g_lh_n == 0 && g_ff_n == 0))
/* large / huge / specially aligned requests get their own page, everything else a size-class page; exactly one of the two, same size */
__CPROVER_ensures((size - MI_PADDING_SIZE <= MI_MAX_ALLOC_SIZE && (size - MI_PADDING_SIZE > MI_MEDIUM_OBJ_SIZE_MAX - MI_PADDING_SIZE || huge_alignment > 0)) ==>
                  (g_lh_n == 1 && g_lh_size == size && g_lh_align == huge_alignment && g_ff_n == 0 && g_err_n == 0))
__CPROVER_ensures((size - MI_PADDING_SIZE <= MI_MEDIUM_OBJ_SIZE_MAX - MI_PADDING_SIZE && huge_alignment == 0) ==> (g_ff_n == 1 && g_ff_size == size && g_lh_n == 0 && g_err_n == 0));
#endif
void h_find_page(void) { mi_heap_t* heap; mi_page_t* p = mi_find_page(heap, vc_nondet_size("size"), vc_nondet_size("huge_alignment")); VC_REACH(); }
