/* C12/C10/C09: mi_heap_visit_pages of the real heap.c -- every page of every queue (also the full queue) is visited exactly once, in queue order, until the
   visitor asks to stop.  Bounded stand-in: one non-empty queue (literal bin VC_VBIN) with at most two pages; plain CBMC (the visitor is a function pointer). */
#include "prelude.h"
#include "mimalloc.h"
#include "mimalloc/internal.h"
#include "mimalloc/prim.h"
#include "contracts/stubs.h"
#include "src/heap.c"
#ifndef VC_VBIN
#define VC_VBIN 1
#endif
static mi_page_t *vp1, *vp2; static size_t vn1, vn2, vn_other, vorder1, vorder2, vclk; static bool vr1, vr2; static mi_page_queue_t* vq1; static mi_heap_t* vheap; static mi_heap_t vheap_obj;   /* a static object: symbolic execution then knows the empty queues as constants */
static bool vc_visitor(mi_heap_t* heap, mi_page_queue_t* pq, mi_page_t* page, void* arg1, void* arg2) {
  (void)arg1; (void)arg2; vclk++;
  if (heap != vheap) vn_other++;
  if (page == vp1) { vn1++; vorder1 = vclk; vq1 = pq; page->next = NULL; /* the visitor may unlink the page (collect frees it): the walk must have saved `next` */ return vr1; }
  if (page == vp2) { vn2++; vorder2 = vclk; return vr2; }
  vn_other++; return true;
}
void h_visit_pages(void) {
  vheap = &vheap_obj; vp1 = malloc(sizeof(mi_page_t)); vp2 = malloc(sizeof(mi_page_t));
  __CPROVER_assume(vp1 != NULL && vp2 != NULL);
  for (size_t i = 0; i <= MI_BIN_FULL; i++) { vheap->pages[i].first = NULL; vheap->pages[i].last = NULL; }
  bool two = vc_nondet_bool("two"); vr1 = vc_nondet_bool("vr1"); vr2 = vc_nondet_bool("vr2");
  vheap->pages[VC_VBIN].first = vp1; vp1->prev = NULL; vp1->next = (two ? vp2 : NULL); vp2->prev = vp1; vp2->next = NULL; vheap->pages[VC_VBIN].last = (two ? vp2 : vp1);
  vheap->page_count = (two ? 2 : 1);
  vn1 = 0; vn2 = 0; vn_other = 0; vclk = 0;
  void* a1; void* a2;
  bool r = mi_heap_visit_pages(vheap, &vc_visitor, a1, a2);
  __CPROVER_assert(vn1 == 1 && vq1 == &vheap->pages[VC_VBIN], "the first page of the queue is visited exactly once, with its own queue");
  __CPROVER_assert(vn2 == ((two && vr1) ? 1 : 0), "the second page is visited exactly once unless the visitor stopped the walk (also when the visitor unlinked the first page)");
  __CPROVER_assert(vn_other == 0, "nothing else is visited");
  __CPROVER_assert(!r == !(vr1 && (!two || vr2)), "the result says whether the walk ran to the end");
  __CPROVER_assert(!(two && vr1) || vorder1 < vorder2, "queue order");
  VC_REACH();
}
