/* C16: pointer -> segment -> page, page area start (internal.h, real segment.c).
   SCALED: 64 slices per segment (the 1024-slice mi_segment_t is beyond the solver); same source. */
#include "prelude.h"
#include "mimalloc.h"
#include "mimalloc/internal.h"
size_t g_idx, g_off, g_area;
#define VC_C16_SEG
#include "contracts/c16.h"
#include "src/segment.c"
void h_ptr_segment(void) {
  g_off = vc_nondet_size("g_off"); void* p;
  mi_segment_t* s = _mi_ptr_segment(p);
  VC_REACH();
}
void h_page_of(void) {
  g_off = vc_nondet_size("g_off"); g_idx = vc_nondet_size("g_idx"); void* p; mi_segment_t* s;
  mi_page_t* pg = _mi_segment_page_of(s, p);
  VC_REACH();
}
void h_page_start(void) {
  g_idx = vc_nondet_size("g_idx"); mi_segment_t* s; mi_slice_t* sl; size_t* ps;
  uint8_t* r = _mi_segment_page_start_from_slice(s, sl, VC_BS, ps);
  VC_REACH();
}
