/* C01/C03/C12 (SWF): the span layer of the real segment.c, SCALED. */
#include "prelude.h"
#include "mimalloc.h"
#include "mimalloc/internal.h"
#include "mimalloc/prim.h"
#include "contracts/c16.h"
#include "contracts/stubs.h"
#include "src/segment.c"
#include "contracts/seg_purge.h"
#include "contracts/seg_span.h"

static void span_ghosts(void) {
  g_si = vc_nondet_size("g_si"); g_sc = vc_nondet_size("g_sc"); g_sw = vc_nondet_size("g_sw"); g_so = vc_nondet_size("g_so");
  g_so_off = vc_nondet_u32("g_so_off"); g_so_cnt = vc_nondet_u32("g_so_cnt"); g_so_bs = vc_nondet_size("g_so_bs"); g_used0 = vc_nondet_size("g_used0");
  g_ec_ret = vc_nondet_bool("g_ec_ret");
}
void h_span_allocate(void) {
  span_ghosts();
  mi_segment_t* s;
#ifdef VC_SI
  g_si = VC_SI;       /* a literal, so that symbolic execution resolves every slice address (see contracts/seg_span.h) */
  mi_page_t* r = mi_segment_span_allocate(s, VC_SI, vc_nondet_size("slice_count"));
#else
  mi_page_t* r = mi_segment_span_allocate(s, vc_nondet_size("slice_index"), vc_nondet_size("slice_count"));
#endif
  VC_REACH();
}
void h_span_free(void) {
  span_ghosts();
  mi_segment_t* s; mi_segments_tld_t* tld;
  mi_segment_span_free(s, vc_nondet_size("slice_index"), vc_nondet_size("slice_count"), vc_nondet_bool("allow_purge"), tld);
  VC_REACH();
}
/* use lemma: after span_allocate (by contract), the real _mi_segment_page_of maps every pointer into the first
   MI_BLOCK_ALIGNMENT_MAX bytes of the page's slices back to the page */
void h_span_page_of(void) {
  span_ghosts();
  mi_segment_t* s = malloc(sizeof(mi_segment_t));
  __CPROVER_assume(s != NULL);
  size_t si = vc_nondet_size("slice_index"), sc = vc_nondet_size("slice_count");
  __CPROVER_assume(s->slice_entries >= 1 && s->slice_entries <= MI_SLICES_PER_SEGMENT && s->kind == MI_SEGMENT_NORMAL && g_so <= MI_SLICES_PER_SEGMENT);
  __CPROVER_assume(s->slices[g_so].slice_offset == g_so_off && s->slices[g_so].slice_count == g_so_cnt && s->slices[g_so].block_size == g_so_bs && s->used == g_used0 && g_used0 < MI_SLICES_PER_SEGMENT);
  __CPROVER_assume(si == g_si && sc == g_sc && si < s->slice_entries && sc >= 1 && sc <= MI_SLICES_PER_SEGMENT && si + sc <= s->slice_entries && s->slices[si].block_size <= 1);
  g_ec_n = 0;
  mi_page_t* page = mi_segment_span_allocate(s, si, sc);
  if (page != NULL) {
    size_t off = vc_nondet_size("off");     /* any byte of the page's first MI_BLOCK_ALIGNMENT_MAX bytes worth of slices */
    __CPROVER_assume(off >= si * MI_SEGMENT_SLICE_SIZE && off < (si + sc) * MI_SEGMENT_SLICE_SIZE && off - si * MI_SEGMENT_SLICE_SIZE < MI_BLOCK_ALIGNMENT_MAX);
    __CPROVER_assume((off >> MI_SEGMENT_SLICE_SHIFT) == si + g_sw);
    mi_page_t* q = _mi_segment_page_of(s, (uint8_t*)s + off);
    __CPROVER_assert(q == page, "interior pointer maps back to its page");
    VC_REACH();
  }
}
static mi_slice_t* build_seg(void) {
  mi_segment_t* s = malloc(sizeof(mi_segment_t));
#ifdef VC_SI
  g_si = VC_SI;      /* literal slice index (see contracts/seg_span.h) */
#endif
  __CPROVER_assume(s != NULL && g_si < MI_SLICES_PER_SEGMENT);
  g_sseg = s;
  return &s->slices[g_si];
}
void h_slice_split(void) {
  span_ghosts(); g_c0 = vc_nondet_size("g_c0");
  mi_segments_tld_t* tld; mi_slice_t* sl = build_seg();
  mi_segment_slice_split(g_sseg, sl, vc_nondet_size("slice_count"), tld);
  VC_REACH();
}
void h_coalesce(void) {
  span_ghosts(); g_c0 = vc_nondet_size("g_c0"); g_nc = vc_nondet_size("g_nc"); g_ph = vc_nondet_size("g_ph"); g_nf = vc_nondet_bool("g_nf"); g_pf = vc_nondet_bool("g_pf");
  mi_segments_tld_t* tld; mi_slice_t* sl = build_seg();
  mi_slice_t* r = mi_segment_span_free_coalesce(sl, tld);
  VC_REACH();
}
