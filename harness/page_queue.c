/* C01/C10: queue surgery of the real page-queue.c (through page.c) on harness-built objects. */
#include "prelude.h"
#include "mimalloc.h"
#include "mimalloc/internal.h"
#include "mimalloc/prim.h"
#include "contracts/stubs.h"
#include "src/page.c"
#include "contracts/page_queue.h"
static mi_page_t* maybe_page(void) { if (vc_nd_bool()) return NULL; mi_page_t* p = malloc(sizeof(mi_page_t)); __CPROVER_assume(p != NULL); return p; }
static void build(void) {
  g_qheap = malloc(sizeof(mi_heap_t)); g_qpage = malloc(sizeof(mi_page_t)); g_qfrom = malloc(sizeof(mi_page_queue_t)); g_qto = malloc(sizeof(mi_page_queue_t));
  __CPROVER_assume(g_qheap != NULL && g_qpage != NULL && g_qfrom != NULL && g_qto != NULL);
  g_prev = maybe_page(); g_next = maybe_page(); g_tlast = maybe_page();
  g_tfirst = (g_tlast == NULL ? NULL : (vc_nd_bool() ? g_tlast : maybe_page()));
  if (g_tlast != NULL && g_tfirst == NULL) g_tfirst = g_tlast;
  g_ofirst = (g_prev == NULL ? g_qpage : (vc_nd_bool() ? g_prev : maybe_page()));
  if (g_ofirst == NULL) g_ofirst = g_prev;
  g_olast = (g_next == NULL ? g_qpage : (vc_nd_bool() ? g_next : maybe_page()));
  if (g_olast == NULL) g_olast = g_next;
  /* links are ASSIGNED, not assumed: a pointer field that is only constrained by a precondition has no provenance in CBMC */
  g_qpage->prev = g_prev; g_qpage->next = g_next;
  if (g_prev != NULL) g_prev->next = g_qpage;
  if (g_next != NULL) g_next->prev = g_qpage;
  g_qfrom->first = g_ofirst; g_qfrom->last = g_olast;
  g_qto->first = g_tfirst; g_qto->last = g_tlast;
  if (g_tfirst != NULL) g_tfirst->prev = NULL;
  if (g_tlast != NULL) g_tlast->next = NULL;
  g_qpage->xheap = (uintptr_t)g_qheap;
  g_pc0 = vc_nondet_size("g_pc0"); g_ha0 = vc_nondet_bool("g_ha0"); g_fu_n = 0;
}
void h_queue_remove(void) { build(); mi_page_queue_remove(g_qfrom, g_qpage); VC_REACH(); }
void h_queue_push(void) { build(); mi_page_queue_push(g_qheap, g_qto, g_qpage); VC_REACH(); }
void h_queue_enqueue_from(void) { build(); mi_page_queue_enqueue_from_ex(g_qto, g_qfrom, vc_nondet_bool("at_end"), g_qpage); VC_REACH(); }
