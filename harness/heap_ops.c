/* C10: the real heap.c */
#include "prelude.h"
#include "mimalloc.h"
#include "mimalloc/internal.h"
#include "mimalloc/prim.h"
#include "contracts/stubs.h"
size_t g_hfree_at, g_delete_n;
#include "src/heap.c"
#include "contracts/heap_ops.h"
void h_absorb(void) { g_w = vc_nondet_size("g_w"); mi_heap_t* a; mi_heap_t* b; mi_heap_absorb(a, b); VC_REACH(); }
void h_delete(void) { mi_heap_t* h; mi_heap_delete(h); VC_REACH(); }
void h_destroy(void) { mi_heap_t* h; mi_heap_destroy(h); VC_REACH(); }
void h_heap_free(void) { mi_heap_t* h; mi_heap_free(h); VC_REACH(); }
