/* C10: the real heap.c */
#include "prelude.h"
#include "mimalloc.h"
#include "mimalloc/internal.h"
#include "mimalloc/prim.h"
#include "contracts/stubs.h"
size_t g_hfree_at, g_delete_n;
#include "src/heap.c"
#include "contracts/heap_ops.h"
#define VC_ARENA_MEMID_SUIT_CONTRACT
#include "contracts/heap_suit.h"
/* C15: the heap-level suitability test used by every adoption path (segment.c) against the arena-level truth table (enforced on arena.c) */
void h_heap_suitable(void) { mi_heap_t* h = malloc(sizeof(mi_heap_t)); __CPROVER_assume(h != NULL); mi_memid_t memid; bool r = _mi_heap_memid_is_suitable(h, memid); VC_REACH(); }
void h_absorb(void) { g_w = vc_nondet_size("g_w"); mi_heap_t* a; mi_heap_t* b; mi_heap_absorb(a, b); VC_REACH(); }
void h_delete(void) { mi_heap_t* h; mi_heap_delete(h); VC_REACH(); }
void h_destroy(void) { mi_heap_t* h; mi_heap_destroy(h); VC_REACH(); }
void h_heap_free(void) { mi_heap_t* h; mi_heap_free(h); VC_REACH(); }
void h_page_destroy(void) {
  g_dheap = malloc(sizeof(mi_heap_t)); g_dtld = malloc(sizeof(mi_tld_t)); g_dpage = malloc(sizeof(mi_page_t));
  __CPROVER_assume(g_dheap != NULL && g_dtld != NULL && g_dpage != NULL);
  g_dheap->tld = g_dtld; g_udf_n = 0; g_dspf_n = 0;
  mi_page_queue_t* pq; void* a1; void* a2;
  bool r = _mi_heap_page_destroy(g_dheap, pq, g_dpage, a1, a2);
  VC_REACH();
}
