/* C17: "is this decoded link inside the block's page area?" -- mi_is_in_same_page (internal.h) with the real segment.c,
   hardened + SCALED configuration; one run per size class VC_BS. */
#include "prelude.h"
#include "mimalloc.h"
#include "mimalloc/internal.h"
#include "mimalloc/prim.h"
#ifndef VC_BS
#define VC_BS 48
#endif
#include "contracts/stubs.h"
#include "src/segment.c"
#ifdef VC_CBMC
size_t g_idx, g_cnt, g_poff, g_qoff; bool g_q_elsewhere;
static mi_segment_t vc_seg;         /* the segment header (contents arbitrary: statics are nondeterministic under dfcc) */
static uint8_t vc_other[16];        /* some object outside the segment */
#define g_seg (&vc_seg)
#define g_other vc_other
#define VC_SL MI_SEGMENT_SLICE_SIZE
static inline bool mi_is_in_same_page(const void* p, const void* q)
__CPROVER_requires(g_idx >= 1 && g_cnt >= 1 && g_idx < MI_SLICES_PER_SEGMENT && g_cnt <= MI_SLICES_PER_SEGMENT - g_idx)
/* SWF: the span [g_idx, g_idx+g_cnt) is one page of block size VC_BS; every slice of it points back to its head */
__CPROVER_requires(g_seg->slices[g_idx].slice_count == g_cnt && g_seg->slices[g_idx].slice_offset == 0 && g_seg->slices[g_idx].block_size == VC_BS)
__CPROVER_requires(g_poff > g_idx * VC_SL && g_poff < (g_idx + g_cnt) * VC_SL && p == (uint8_t*)g_seg + g_poff)
__CPROVER_requires(g_seg->slices[g_poff >> MI_SEGMENT_SLICE_SHIFT].slice_offset == ((g_poff >> MI_SEGMENT_SLICE_SHIFT) - g_idx) * sizeof(mi_slice_t))
__CPROVER_requires(g_qoff >= 1 && g_qoff <= MI_SEGMENT_SIZE && q == (g_q_elsewhere ? g_other + 8 : (uint8_t*)g_seg + g_qoff))
__CPROVER_assigns()
/* a link into another segment, before the page area, or AT OR BEHIND its end is outside */
__CPROVER_ensures(g_q_elsewhere ==> !__CPROVER_return_value)
__CPROVER_ensures((!g_q_elsewhere && g_qoff < g_idx * VC_SL) ==> !__CPROVER_return_value)
__CPROVER_ensures((!g_q_elsewhere && g_qoff >= (g_idx + g_cnt) * VC_SL) ==> !__CPROVER_return_value)
/* every address of the area proper is inside */
__CPROVER_ensures((!g_q_elsewhere && g_qoff >= g_idx * VC_SL + 4 * (size_t)VC_BS + 16 && g_qoff < (g_idx + g_cnt) * VC_SL) ==> __CPROVER_return_value);
#endif
void h_same_page(void) {
  g_idx = vc_nondet_size("g_idx"); g_cnt = vc_nondet_size("g_cnt"); g_poff = vc_nondet_size("g_poff"); g_qoff = vc_nondet_size("g_qoff"); g_q_elsewhere = vc_nondet_bool("g_q_elsewhere");
  const void* p = (uint8_t*)&vc_seg + g_poff;                                  /* real pointers, built by the harness */
  const void* q = (g_q_elsewhere ? (const void*)(vc_other + 8) : (const void*)((uint8_t*)&vc_seg + g_qoff));
  bool r = mi_is_in_same_page(p, q);
  VC_REACH();
}
