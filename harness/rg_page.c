/* C02/C08/C10 (owner side): the real page.c (+page-queue.c) under rely/guarantee with the shadow <stdatomic.h>.
   The word page->xthread_free = (head of the remote free list | 2 flag bits).
   Rely  (what other threads may do before any of my atomic accesses, at most VC_K events):
     R-push   : a remote thread pushes one of ITS blocks: head := rb, rb->next == old head, flags unchanged
     R-flag   : USE_DELAYED -> DELAYED_FREEING -> NO_DELAYED (head unchanged), by a remote thread
   Guarantee (checked at every atomic write of mine on that word):
     G-take   : head := NULL, flags unchanged                                     (_mi_page_thread_free_collect)
     G-flag   : flags := delay, head unchanged, never while the observed flag is DELAYED_FREEING   (_mi_page_try_use_delayed_free)
   Weak CAS may fail spuriously (at most VC_SPUR times). */
#include "prelude.h"
#include "mimalloc.h"
#include "mimalloc/internal.h"
#include "mimalloc/prim.h"
#include "contracts/stubs.h"
#ifndef VC_NO_INIT_C
#include "src/init.c"      /* the size-class table (_mi_heap_empty) and the main heap */
#endif
#include "src/page.c"
#ifndef VC_K
#define VC_K 2
#endif
#define VC_SPUR 1
#ifndef VC_QPOLLS
#define VC_QPOLLS 7      /* more than the 4 polls after which _mi_page_try_use_delayed_free gives up */
#endif
#ifndef VC_NB
#define VC_NB 3
#endif
#define NB VC_NB                   /* blocks initially on the remote list (0..NB) */
typedef struct { mi_block_t b; size_t pad; } blk_t;
static mi_page_t pg;
static mi_heap_t hp;
static blk_t init_blocks[NB];    /* initial remote list:   init_blocks[0] -> [1] -> [2] -> NULL (a prefix of it) */
static blk_t remote_blocks[VC_K];/* blocks other threads push during the call */
static blk_t local_blocks[1];    /* head of the owner's local_free list */
static blk_t dblocks[3]; static size_t g_swap_n;
static size_t vc_budget, vc_spur, vc_pushed;
static uintptr_t g_taken_word;   /* ghost: value the successful take-over CAS replaced */
static size_t g_take_n, g_flagwrite_n;
static size_t g_pushed_before_take;
static mi_delayed_t g_role_delay; static bool g_role_is_flag;   /* which guarantee applies to the function under test */

static size_t list_len(mi_block_t* b) { size_t n = 0; while (b != NULL && n <= NB + VC_K + 1) { n++; b = (mi_block_t*)b->next; } return n; }

static bool q_mode, old_window; static size_t q_polls;     /* queue-append scenario (see h_queue_append) */
void vc_interfere(void* addr, size_t size) {
  (void)size;
  if (q_mode) {
    /* a remote thread that entered its DELAYED_FREEING window BEFORE the page was re-parented eventually leaves it
       (fairness: at the latest after VC_QPOLLS polls of the owner); it does nothing else to this word meanwhile */
    if (addr == (void*)&pg.xthread_free && old_window) {
      q_polls++;
      if (q_polls >= VC_QPOLLS || vc_nondet_bool("leave")) { pg.xthread_free = (pg.xthread_free & ~(uintptr_t)3) | MI_NO_DELAYED_FREE; old_window = false; }
    }
    return;
  }
  if (addr == (void*)&pg.xthread_free && vc_budget > 0 && vc_nondet_bool("interfere")) {
    vc_budget--;
    const uintptr_t w = pg.xthread_free; const uintptr_t fl = w & 3;
    if (vc_nondet_bool("push") && vc_pushed < VC_K) {                     /* R-push */
      mi_block_t* rb = &remote_blocks[vc_pushed].b; vc_pushed++;
      rb->next = (mi_encoded_t)(w & ~(uintptr_t)3);
      pg.xthread_free = (uintptr_t)rb | fl;
    } else if (fl == MI_USE_DELAYED_FREE) { pg.xthread_free = (w & ~(uintptr_t)3) | MI_DELAYED_FREEING; }   /* R-flag */
    else if (fl == MI_DELAYED_FREEING)    { pg.xthread_free = (w & ~(uintptr_t)3) | MI_NO_DELAYED_FREE; }
  }
}
static bool repushed[3];     /* ghost: block i was put back on the heap's delayed list by a CAS of mine */
void vc_atomic_wrote(void* addr, uintptr_t o, uintptr_t n) {
  if (addr == (void*)&hp.thread_delayed_free) {
    if (n == (uintptr_t)&dblocks[0].b) repushed[0] = true;
    else if (n == (uintptr_t)&dblocks[1].b) repushed[1] = true;
    else if (n == (uintptr_t)&dblocks[2].b) repushed[2] = true;
    else { __CPROVER_assert(n == 0, "the owner only swaps the delayed list out (NULL) or re-inserts one of its blocks"); g_swap_n++; }
  }
  if (addr == (void*)&pg.xthread_free) {
    if (q_mode) { __CPROVER_assert((o & 3) != MI_DELAYED_FREEING, "G-flag: never writes while another thread is in its delayed-freeing window"); }
    else if (!g_role_is_flag) {
      __CPROVER_assert((n & ~(uintptr_t)3) == 0 && (n & 3) == (o & 3), "G-take: the owner's write swaps the list out (head := NULL) and keeps the flags");
      g_take_n++; g_taken_word = o; g_pushed_before_take = vc_pushed;
    } else {
      __CPROVER_assert((n & ~(uintptr_t)3) == (o & ~(uintptr_t)3), "G-flag: the remote list is untouched");
      __CPROVER_assert((o & 3) != MI_DELAYED_FREEING, "G-flag: never writes while another thread is in its delayed-freeing window");
      __CPROVER_assert((n & 3) == (uintptr_t)g_role_delay, "G-flag: the flag written is the requested one");
      g_flagwrite_n++;
    }
  }
}
bool vc_spurious_fail(void) { if (vc_spur > 0 && vc_nondet_bool("spurious")) { vc_spur--; return true; } return false; }

static void setup(size_t n0) {
  for (size_t i = 0; i < NB; i++) init_blocks[i].b.next = (i + 1 < n0 ? (mi_encoded_t)&init_blocks[i + 1].b : 0);
  pg.xthread_free = (n0 > 0 ? (uintptr_t)&init_blocks[0].b : 0) | (vc_nondet_u8("flags") & 3);
  pg.xheap = (uintptr_t)&hp;
  vc_budget = VC_K; vc_spur = VC_SPUR; vc_pushed = 0; g_take_n = 0; g_flagwrite_n = 0;
}

/* owner takes over the remote list */
void h_thread_free_collect(void) {
  size_t n0 = vc_nondet_size("n0"); VC_ASSUME(n0 <= NB);
  setup(n0); g_role_is_flag = false;
  pg.capacity = vc_nondet_u16("capacity"); pg.used = vc_nondet_u16("used");
  VC_ASSUME(pg.capacity >= NB + VC_K + 1 && pg.used >= NB + VC_K && pg.used <= pg.capacity);
  pg.local_free = vc_nondet_bool("has_local") ? &local_blocks[0].b : NULL; local_blocks[0].b.next = 0;
  mi_block_t* const lf0 = pg.local_free; const uint16_t used0 = pg.used;
  _mi_page_thread_free_collect(&pg);
  __CPROVER_assert(g_take_n <= 1, "at most one successful take-over CAS");
  if (g_take_n == 0) {     /* (an implementation may skip the CAS when it observed an empty list) */
    __CPROVER_assert(pg.local_free == lf0 && pg.used == used0, "no take-over: nothing changes");
    VC_REACH(); return;
  }
  mi_block_t* const taken = (mi_block_t*)(g_taken_word & ~(uintptr_t)3);
  const size_t len = n0 + g_pushed_before_take;        /* ghost: length of the list at the moment of the take-over */
  __CPROVER_assert((taken == NULL) == (len == 0), "ghost: the swapped-out list is empty exactly when nothing was on it");
  if (taken == NULL) {
    __CPROVER_assert(pg.local_free == lf0 && pg.used == used0, "empty remote list: nothing changes");
  } else {
    __CPROVER_assert(pg.local_free == taken, "the list walked is exactly the list that the CAS swapped out (no remote free is dropped)");
    __CPROVER_assert(pg.used == used0 - len, "used drops by exactly the number of blocks taken over");
    mi_block_t* t = taken; for (size_t i = 0; i + 1 < len; i++) t = (mi_block_t*)t->next;
    __CPROVER_assert((mi_block_t*)t->next == lf0, "the old local free list is appended behind the last block taken over");
  }
  /* blocks pushed after the take-over are still published on the page (they are not lost, and not collected twice) */
  __CPROVER_assert(list_len((mi_block_t*)(pg.xthread_free & ~(uintptr_t)3)) == vc_pushed - g_pushed_before_take, "later remote frees stay on the remote list");
  VC_REACH();
  #undef pq
  #undef app
}

/* owner (re)arms the delayed-free flag */
void h_try_use_delayed_free(void) {
  setup(0); g_role_is_flag = true;
  g_role_delay = (mi_delayed_t)(vc_nondet_u8("delay") & 3); VC_ASSUME(g_role_delay != MI_DELAYED_FREEING);
  bool override_never = vc_nondet_bool("override_never");
  bool ok = _mi_page_try_use_delayed_free(&pg, g_role_delay, override_never);
  __CPROVER_assert(g_flagwrite_n <= 1, "at most one successful flag write");
  if (!ok) { __CPROVER_assert(g_flagwrite_n == 0, "giving up (after 4 yields) writes nothing"); }
  VC_REACH();
  #undef pq
  #undef app
}

/* ---- owner drains the heap's delayed-free list (C08) ---- */
static size_t tried[3]; static bool freed[3];
/* free.c is not part of this translation unit: _mi_free_delayed_block is a recorder body -- it may fail (page still in another
   thread's DELAYED_FREEING window) or succeed for every block */
bool _mi_free_delayed_block(mi_block_t* block) {
  bool ok = vc_nondet_bool("freed");
  if (block == &dblocks[0].b) { tried[0]++; if (ok) freed[0] = true; }
  else if (block == &dblocks[1].b) { tried[1]++; if (ok) freed[1] = true; }
#if VC_NB > 2
  else if (block == &dblocks[2].b) { tried[2]++; if (ok) freed[2] = true; }
#endif
  return ok;
}
void h_delayed_free_partial(void) {
  size_t n0 = vc_nondet_size("n0"); VC_ASSUME(n0 <= NB);
  for (size_t i = 0; i < NB; i++) { dblocks[i].b.next = (i + 1 < n0 ? (mi_encoded_t)&dblocks[i + 1].b : 0); tried[i] = 0; freed[i] = false; repushed[i] = false; }
  hp.thread_delayed_free = (n0 > 0 ? &dblocks[0].b : NULL);
  vc_budget = 0; vc_spur = VC_SPUR; g_role_is_flag = false;
  bool all = _mi_heap_delayed_free_partial(&hp);
  size_t w = vc_nondet_size("w"); VC_ASSUME(w < n0);
  __CPROVER_assert(tried[w] == 1, "every block that was on the delayed list is handed to the free routine exactly once");
  __CPROVER_assert(freed[w] || repushed[w], "a block that could not be freed yet is put back on the list -- no remote free is lost");
  __CPROVER_assert(!(freed[w] && repushed[w]), "a freed block is not left on the list");
  __CPROVER_assert(!all || freed[w], "'all freed' is reported only if every block was freed");
  VC_REACH();
  #undef pq
  #undef app
}

/* ---- heap delete re-parents the pages of a queue while a remote free may be in flight (C10, C02) ---- */
void h_queue_append(void) {
  static mi_heap_t to;
  #define pq  (to.pages[8])       /* the queue of the 64-byte class in the absorbing heap ... */
  #define app (hp.pages[8])       /* ... and in the heap that is being deleted */
  q_mode = true; q_polls = 0; vc_spur = 0;
  const uint8_t fl = vc_nondet_u8("flags") & 3;
  pg.xthread_free = fl; old_window = (fl == MI_DELAYED_FREEING);     /* a remote thread may be inside its window and may already have read the OLD heap */
  pg.xheap = (uintptr_t)&hp; pg.next = NULL; pg.prev = NULL;
  app.first = &pg; app.last = &pg; pq.first = NULL; pq.last = NULL; pq.block_size = app.block_size = 64; pg.block_size = 64;
  size_t n = _mi_page_queue_append(&to, &pq, &app);
  __CPROVER_assert(n == 1 && (mi_heap_t*)pg.xheap == &to, "every appended page belongs to the absorbing heap");
  __CPROVER_assert(!old_window, "no thread is still inside a delayed-freeing window that began before the page was re-parented (it could push onto the deleted heap)");
  __CPROVER_assert(pq.first == &pg && pq.last == &pg, "the page is linked into the target queue");
  VC_REACH();
  #undef pq
  #undef app
}
