/* C17: hardened build (-DMI_SECURE=4): the real alloc.c + free.c */
#include "prelude.h"
/* dfcc cannot pass its write-set through a variadic call: the error path `_mi_error_message(code, fmt, ...)` is redirected, at
   every call site, to a recorder of the error CODE (the message text is not inspected; the error callback replaces abort) */
int g_err; size_t g_err_n;
void vc_error(int err) { g_err = err; g_err_n++; }
#define _mi_error_message(err, ...) vc_error(err)
#include "mimalloc.h"
#include "mimalloc/internal.h"
#include "mimalloc/prim.h"
#include <errno.h>
#define VC_OWN_ERROR_MESSAGE
#include "contracts/stubs.h"
#include "src/alloc.c"
#include "contracts/c17.h"
#if !MI_ENCODE_FREELIST || !MI_PADDING
#error "C17 harnesses must be compiled in the hardened configuration"
#endif
static void draw(void) { g_same = vc_nondet_bool("g_same"); g_in_free = vc_nondet_bool("g_in_free"); g_in_local = vc_nondet_bool("g_in_local"); g_in_tf = vc_nondet_bool("g_in_tf"); g_dfree_ret = vc_nondet_bool("g_dfree_ret"); g_used0 = vc_nondet_u16("g_used0"); }
void h_block_next(void) { draw(); mi_page_t* pg; mi_block_t* b; mi_block_t* n = mi_block_next(pg, b); VC_REACH(); }
void h_check_double_free(void) { draw(); mi_page_t* pg; mi_block_t* b; bool r = mi_check_is_double_free(pg, b); VC_REACH(); }
void h_free_block_local_sec(void) { draw(); mi_page_t* pg; mi_block_t* b; mi_free_block_local(pg, b, vc_nondet_bool("track"), vc_nondet_bool("check_full")); VC_REACH(); }

/* encoded links: decode is the inverse of encode for every key pair, every pointer and every `null` sentinel */
void h_encode_decode(void) {
  uintptr_t keys[2]; keys[0] = vc_nondet_uptr("k0"); keys[1] = vc_nondet_uptr("k1");
  const void* null = (const void*)vc_nondet_uptr("null"); void* p = (void*)vc_nondet_uptr("p");
  VC_ASSUME(p != null);          /* (a block never has the address of its own page/heap descriptor) */
  VC_ASSERT(mi_ptr_decode(null, mi_ptr_encode(null, p, keys), keys) == p, "mi_ptr_decode(mi_ptr_encode(p)) == p");
  VC_ASSERT(mi_ptr_decode(null, mi_ptr_encode(null, NULL, keys), keys) == NULL, "NULL round-trips through the sentinel");
  VC_REACH();
}

/* padding: the trailer written at allocation is accepted on free and reports the requested size; one foreign byte just past the
   requested size is reported (EFAULT) with its exact offset.  64-byte class, every key, every request size, every byte value. */
typedef struct { uint8_t bytes[64]; } blk64_t;
void h_padding(void) {
  static mi_page_t pg; static blk64_t blk; mi_heap_t* heap = NULL;
  pg.block_size = 64; pg.keys[0] = vc_nondet_uptr("k0"); pg.keys[1] = vc_nondet_uptr("k1"); pg.used = 1; pg.capacity = 10; pg.is_huge = false;
  ((mi_block_t*)&blk)->next = mi_ptr_encode(&pg, NULL, pg.keys); pg.free = (mi_block_t*)&blk; pg.free_is_zero = false;
  size_t req = vc_nondet_size("req"); VC_ASSUME(req >= 1 && req <= 64 - MI_PADDING_SIZE);
  void* p = _mi_page_malloc_zero(heap, &pg, req + MI_PADDING_SIZE, false);
  VC_ASSERT(p == (void*)&blk, "the block is handed out");
  size_t size = 0, wrong = 0;
  VC_ASSERT(mi_verify_padding(&pg, (mi_block_t*)&blk, &size, &wrong), "an untouched trailer is accepted");
  VC_ASSERT(size == req, "the trailer reports exactly the requested size");
  /* overflow: one byte just past the requested size gets a foreign value */
  size_t j = vc_nondet_size("j"); uint8_t v = vc_nondet_u8("v");
  const size_t delta = (64 - MI_PADDING_SIZE) - req;
  VC_ASSUME(j < (delta > MI_MAX_ALIGN_SIZE ? MI_MAX_ALIGN_SIZE : delta) && v != MI_DEBUG_PADDING);
  blk.bytes[req + j] = v;
  VC_ASSERT(!mi_verify_padding(&pg, (mi_block_t*)&blk, &size, &wrong), "a foreign byte in the checked padding is detected");
  VC_ASSERT(wrong == req + j || j > 0, "the first wrong offset is reported");
  VC_REACH();
}
