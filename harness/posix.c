/* C06/C19: the real alloc-posix.c */
#include "prelude.h"
#include "mimalloc.h"
#include "mimalloc/internal.h"
#include "mimalloc/prim.h"
#include "contracts/stubs.h"
#include <errno.h>
#undef errno
int vc_errno;             /* errno as a plain variable (the libc macro is a function call, which a frame clause cannot name) */
#define errno vc_errno
#include "src/alloc-posix.c"
#include "contracts/posix.h"
void h_posix_memalign(void) { void** p; int r = mi_posix_memalign(p, vc_nondet_size("alignment"), vc_nondet_size("size")); VC_REACH(); }
void h_pvalloc(void) { void* r = mi_pvalloc(vc_nondet_size("size")); VC_REACH(); }
void h_valloc(void) { void* r = mi_valloc(vc_nondet_size("size")); VC_REACH(); }
void h_memalign(void) { void* r = mi_memalign(vc_nondet_size("alignment"), vc_nondet_size("size")); VC_REACH(); }
void h_aligned_alloc(void) { void* r = mi_aligned_alloc(vc_nondet_size("alignment"), vc_nondet_size("size")); VC_REACH(); }
void h_reallocarray(void) { void* p; void* r = mi_reallocarray(p, vc_nondet_size("count"), vc_nondet_size("size")); VC_REACH(); }
void h_reallocarr(void) { void* p; int r = mi_reallocarr(p, vc_nondet_size("count"), vc_nondet_size("size")); VC_REACH(); }
