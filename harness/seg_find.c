/* C15: reuse of cached free spans -- the real mi_segments_page_find_and_allocate (segment.c, SCALED) over one non-empty span queue (bounded stand-in) */
#include "prelude.h"
#include "mimalloc.h"
#include "mimalloc/internal.h"
#include "mimalloc/prim.h"
#include "contracts/c16.h"
#include "contracts/stubs.h"
#include "src/segment.c"
mi_segments_tld_t vc_ftld; mi_segment_t vc_fseg;      /* arbitrary contents (statics are nondeterministic under dfcc) */
#include "contracts/seg_find.h"
#ifndef VC_BIN
#define VC_BIN 5
#endif
void h_find_alloc(void) {
  for (size_t b = 0; b <= MI_SEGMENT_BIN_MAX; b++) { vc_ftld.spans[b].first = NULL; vc_ftld.spans[b].last = NULL; }
  mi_slice_t* a = &vc_fseg.slices[3]; mi_slice_t* b = &vc_fseg.slices[20];      /* links are ASSIGNED (provenance), contents arbitrary */
  bool two = vc_nondet_bool("two"), none = vc_nondet_bool("none");
  a->prev = NULL; a->next = (two ? b : NULL); b->prev = a; b->next = NULL;
  if (!none) { vc_ftld.spans[VC_BIN].first = a; vc_ftld.spans[VC_BIN].last = (two ? b : a); }
  __CPROVER_assume(VC_MEMID_OK(vc_fseg.memid));
  g_freq = vc_nondet_int("g_freq"); g_fa_n = 0; g_fsplit_n = 0; g_fdel_n = 0; g_fco_n = 0;
  mi_page_t* r = mi_segments_page_find_and_allocate(vc_nondet_size("slice_count"), g_freq, &vc_ftld);
  VC_REACH();
}
