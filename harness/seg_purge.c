/* C13/C18/C07: commit and purge of segment ranges -- the real segment.c, SCALED (one 64-bit mask word). */
#include "prelude.h"
#include "mimalloc.h"
#include "mimalloc/internal.h"
#include "mimalloc/prim.h"
#include "contracts/c16.h"
#include "contracts/stubs.h"
#include "src/segment.c"
#include "contracts/seg_purge.h"

void h_commit_mask(void) {
  g_pstart = vc_nondet_size("g_pstart"); g_w = vc_nondet_size("g_w");
  mi_segment_t* s; uint8_t* p; uint8_t** sp; size_t* fs; mi_commit_mask_t* cm;
  mi_segment_commit_mask(s, vc_nondet_bool("conservative"), p, vc_nondet_size("size"), sp, fs, cm);
  VC_REACH();
}
void h_purge(void) {
  g_pstart = vc_nondet_size("g_pstart"); g_w = vc_nondet_size("g_w");
  mi_segment_t* s; uint8_t* p;
  mi_segment_purge(s, p, vc_nondet_size("size"));
  VC_REACH();
}
void h_schedule_purge(void) {
  g_pstart = vc_nondet_size("g_pstart"); g_w = vc_nondet_size("g_w");
  mi_segment_t* s; uint8_t* p;
  mi_segment_schedule_purge(s, p, vc_nondet_size("size"));
  VC_REACH();
}
void h_try_purge(void) {
  g_w = vc_nondet_size("g_w");
  mi_segment_t* s;
  mi_segment_try_purge(s, vc_nondet_bool("force"));
  VC_REACH();
}
void h_next_run(void) {
  g_w = vc_nondet_size("g_w"); g_idx0 = vc_nondet_size("g_idx0");
  mi_commit_mask_t* cm; size_t* idx;
  size_t r = _mi_commit_mask_next_run(cm, idx);
  VC_REACH();
}
void h_commit(void) {
  g_pstart = vc_nondet_size("g_pstart"); g_w = vc_nondet_size("g_w");
  mi_segment_t* s; uint8_t* p;
  bool r = mi_segment_commit(s, p, vc_nondet_size("size"));
  VC_REACH();
}
void h_ensure_committed(void) {
  g_pstart = vc_nondet_size("g_pstart"); g_w = vc_nondet_size("g_w"); g_seg_commit_ret = vc_nondet_bool("g_seg_commit_ret");
  mi_segment_t* s; uint8_t* p;
  bool r = mi_segment_ensure_committed(s, p, vc_nondet_size("size"));
  VC_REACH();
}
