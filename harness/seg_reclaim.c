/* C15/C09: adoption of abandoned segments -- the real segment.c (SCALED); cursor, bitmap and page layers are contracts. */
#include "prelude.h"
#include "mimalloc.h"
#include "mimalloc/internal.h"
#include "mimalloc/prim.h"
#include "contracts/c16.h"
#include "contracts/stubs.h"
#include "src/segment.c"
#ifndef VC_K
#define VC_K 2
#endif
/* abandoned segments the cursor can hand out: arbitrary contents (statics are nondeterministic under dfcc), at most VC_K of them */
static mi_segment_t vc_segs[VC_K];
#include "contracts/seg_reclaim.h"
mi_segment_t* _mi_arena_segment_clear_abandoned_next(mi_arena_field_cursor_t* previous) {
  (void)previous; g_next_n++;
  if (g_next_n > VC_K || !vc_nondet_bool("more")) return NULL;
  /* indexed by the call count, which symbolic execution knows as a constant (the harnesses assign 0 to the counters): a symbolic index
     would make every store to the segment a byte update at a symbolic offset of the array (8.5 M variables, no answer in 900 s) */
  mi_segment_t* s = &vc_segs[g_next_n - 1]; g_got_n++;
  __CPROVER_assume(s->used == s->abandoned && s->subproc == g_subproc && s->abandoned_visits < 100);   /* what "abandoned segment of this sub-process" means */
  __CPROVER_assume(VC_MEMID_OK(s->memid));                 /* type invariant of a memid (contracts/heap_suit.h): arena memory names a registered arena, ids start at 1 */
  return s;
}
static void zero_counters(void) { g_next_n = 0; g_got_n = 0; g_reclaim_n = 0; g_mark_n = 0; g_trypurge_n = 0; }
void h_reclaim_all(void) { zero_counters(); mi_heap_t* h; mi_segments_tld_t* t; _mi_abandoned_reclaim_all(h, t); VC_REACH(); }
void h_abandoned_collect(void) { zero_counters(); mi_heap_t* h; mi_segments_tld_t* t; _mi_abandoned_collect(h, vc_nondet_bool("force"), t); VC_REACH(); }
void h_try_reclaim(void) { zero_counters(); mi_heap_t* h; mi_segments_tld_t* t; bool* r; mi_segment_t* s = mi_segment_try_reclaim(h, vc_nondet_size("needed"), vc_nondet_size("bs"), r, t); VC_REACH(); }
void h_attempt_reclaim(void) { g_clear_ret = vc_nondet_bool("g_clear_ret"); mi_heap_t* h; mi_segment_t* s; bool r = _mi_segment_attempt_reclaim(h, s); VC_REACH(); }
