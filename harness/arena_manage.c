/* C15: memory handed to mi_manage_os_memory(_ex) is only used within the bounds given -- the real arena.c + bitmap.c composed
   (plain run from the initial state of a fresh process; the arena descriptor comes from the real static metadata area).
   Every start address (offset inside the caller's object), size up to 16 GiB and flag combination is symbolic. */
#include "prelude.h"
#include "mimalloc.h"
#include "mimalloc/internal.h"
#include "mimalloc/prim.h"
#include "contracts/stubs.h"
#include "src/bitmap.c"
#include "src/arena.c"
static uint8_t region[1];          /* only addresses inside the caller's region are computed, never dereferenced */
void h_manage_plain(void) {
  size_t roff = vc_nondet_size("roff"), size = vc_nondet_size("size");
  VC_ASSUME(roff <= ((size_t)1 << 40) && size <= ((size_t)1 << 34));
  bool is_large = vc_nondet_bool("is_large"), committed = vc_nondet_bool("committed") || is_large, excl = vc_nondet_bool("exclusive");
  mi_arena_id_t id = 0;
  bool ok = mi_manage_os_memory_ex(region + roff, size, committed, is_large, vc_nondet_bool("is_zero"), vc_nondet_int("numa"), excl, &id);
  if (ok) {
    VC_ASSERT(id >= 1 && id <= MI_MAX_ARENAS && mi_arenas[id - 1] != NULL, "a registered arena is reachable through its id");
    mi_arena_t* a = mi_arenas[id - 1];
    const size_t aoff = __CPROVER_POINTER_OFFSET(a->start);
    VC_ASSERT(__CPROVER_same_object(a->start, region) && aoff >= roff, "the arena does not start before the region given");
    VC_ASSERT((aoff % MI_SEGMENT_ALIGN) == 0, "the arena start is segment aligned");
    VC_ASSERT(a->block_count >= 1 && aoff + a->block_count * MI_ARENA_BLOCK_SIZE <= roff + size, "the last arena block ends inside the region given");
    VC_ASSERT(a->field_count * MI_BITMAP_FIELD_BITS >= a->block_count && (a->field_count - 1) * MI_BITMAP_FIELD_BITS < a->block_count, "bitmap fields cover the blocks");
    VC_ASSERT(a->exclusive == excl, "exclusivity is recorded");
    size_t b = vc_nondet_size("b"); VC_ASSUME(b < a->field_count * MI_BITMAP_FIELD_BITS);
    const bool inuse = ((a->blocks_inuse[b / MI_BITMAP_FIELD_BITS] >> (b % MI_BITMAP_FIELD_BITS)) & 1) != 0;
    VC_ASSERT(inuse == (b >= a->block_count), "exactly the bits behind the last block are pre-claimed (never handed out); all real blocks are free");
  } else {
    VC_ASSERT(mi_arena_count == 0 || mi_arenas[0] == NULL || size >= MI_ARENA_BLOCK_SIZE, "a region smaller than one block registers nothing");
  }
  VC_REACH();
}
