/* C13/C20: the option getters of the real options.c against the contracts every other harness assumes for them (contracts/stubs.h) */
#include "prelude.h"
#include "mimalloc.h"
#include "mimalloc/internal.h"
#include "mimalloc/prim.h"
#define VC_HAVE_OPTIONS_C
#include "contracts/stubs.h"
#include "src/options.c"
#include "contracts/opt_get.h"
void h_opt_get(void) { long r = mi_option_get((mi_option_t)vc_nondet_int("option")); VC_REACH(); }
void h_opt_is_enabled(void) { bool r = mi_option_is_enabled((mi_option_t)vc_nondet_int("option")); VC_REACH(); }
void h_opt_get_clamp(void) { long r = mi_option_get_clamp((mi_option_t)vc_nondet_int("option"), vc_nondet_long("min"), vc_nondet_long("max")); VC_REACH(); }
