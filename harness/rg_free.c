/* C02/C08/C10 (remote side): the real free.c (through alloc.c) under rely/guarantee.  Function under test:
   mi_free_block_delayed_mt(page, block) executed by a thread that does NOT own the page.
   Rely (owner and other remote threads, at most VC_K events, before any of my atomic accesses):
     on page->xthread_free : owner take-over (head := NULL, flags kept); another remote push (flags kept);
                             owner flag change (only while the flag is not DELAYED_FREEING)
     on heap->thread_delayed_free : another remote push; owner swaps the list out (NULL)
     on page->xheap        : the owner re-parents the page (heap delete) -- only while the flag is not DELAYED_FREEING
   Guarantee (every atomic write of mine):
     (a) push: new head == my block, my block's link == old head, flags unchanged and not USE_DELAYED
     (b) USE_DELAYED -> DELAYED_FREEING, head unchanged        (c) DELAYED_FREEING -> NO_DELAYED, head unchanged, after my block is on the heap list
     heap list: new head == my block, link == old head
   and: page->xheap is read only inside my DELAYED_FREEING window; my block is published exactly once. */
#include "prelude.h"
#include "mimalloc.h"
#include "mimalloc/internal.h"
#include "mimalloc/prim.h"
#include "contracts/stubs.h"
#include "src/alloc.c"
#ifndef VC_K
#define VC_K 2
#endif
typedef struct { mi_block_t b; size_t pad; } blk_t;
static mi_page_t pg; static mi_heap_t hp, hp2; static blk_t mine, others[VC_K + 1], initial;
static size_t vc_budget, vc_spur, vc_other;
static bool my_freeing;            /* ghost: I hold the DELAYED_FREEING window */
static size_t pub_page, pub_heap;  /* ghost: how often my block was published on the page list / the heap list */
static bool heap_pushed;

void vc_interfere(void* addr, size_t size) {
  (void)size;
  if (addr == (void*)&pg.xheap) { __CPROVER_assert(my_freeing, "page->xheap is read only inside my DELAYED_FREEING window (otherwise the heap may be gone)"); }
  if (vc_budget == 0 || !vc_nondet_bool("interfere")) return;
  if (addr == (void*)&pg.xthread_free) {
    vc_budget--;
    const uintptr_t w = pg.xthread_free; const uintptr_t fl = w & 3; const uint8_t what = vc_nondet_u8("what") % 3;
    if (what == 0) { pg.xthread_free = fl; }                                                          /* owner take-over */
    else if (what == 1 && vc_other < VC_K) { mi_block_t* rb = &others[vc_other++].b; rb->next = (mi_encoded_t)(w & ~(uintptr_t)3); pg.xthread_free = (uintptr_t)rb | fl; }
    else if (fl != MI_DELAYED_FREEING) { pg.xthread_free = (w & ~(uintptr_t)3) | (vc_nondet_u8("newflag") % 4 == MI_DELAYED_FREEING ? MI_USE_DELAYED_FREE : (vc_nondet_u8("newflag2") & 3 & ~1)); }
    if (!my_freeing && (pg.xthread_free & 3) != MI_DELAYED_FREEING && vc_nondet_bool("reparent")) { pg.xheap = (uintptr_t)&hp2; }   /* owner deletes the heap: only outside any window */
  } else if (addr == (void*)&hp.thread_delayed_free || addr == (void*)&hp2.thread_delayed_free) {
    vc_budget--;
    _Atomic(mi_block_t*)* l = (addr == (void*)&hp.thread_delayed_free ? &hp.thread_delayed_free : &hp2.thread_delayed_free);
    if (vc_nondet_bool("swap")) { *l = NULL; }
    else if (vc_other < VC_K) { mi_block_t* rb = &others[vc_other++].b; rb->next = (mi_encoded_t)*l; *l = rb; }
  }
}
void vc_atomic_wrote(void* addr, uintptr_t o, uintptr_t n) {
  if (addr == (void*)&pg.xthread_free) {
    const uintptr_t ofl = o & 3, nfl = n & 3, oh = o & ~(uintptr_t)3, nh = n & ~(uintptr_t)3;
    if (nh != oh) {         /* (a) */
      __CPROVER_assert(nh == (uintptr_t)&mine.b && mine.b.next == (mi_encoded_t)oh, "G(a): the new head is my block and it links to the old head");
      __CPROVER_assert(nfl == ofl && ofl != MI_USE_DELAYED_FREE, "G(a): flags unchanged; a page that asked for delayed free is never pushed on directly");
      pub_page++;
    } else if (ofl == MI_USE_DELAYED_FREE) { __CPROVER_assert(nfl == MI_DELAYED_FREEING, "G(b): USE_DELAYED -> DELAYED_FREEING"); my_freeing = true; }
    else { __CPROVER_assert(ofl == MI_DELAYED_FREEING && nfl == MI_NO_DELAYED_FREE && my_freeing && heap_pushed, "G(c): window closed only by its owner, after the block is on the heap's delayed list"); my_freeing = false; }
  } else if (addr == (void*)&hp.thread_delayed_free || addr == (void*)&hp2.thread_delayed_free) {
    __CPROVER_assert(n == (uintptr_t)&mine.b && mine.b.next == (mi_encoded_t)o, "G(heap): push of my block, linked to the old head");
    __CPROVER_assert(my_freeing, "the heap's delayed list is only touched inside my DELAYED_FREEING window");
    __CPROVER_assert(addr == (void*)&((mi_heap_t*)pg.xheap)->thread_delayed_free, "it is the list of the heap that currently owns the page");
    pub_heap++; heap_pushed = true;
  }
}
bool vc_spurious_fail(void) { if (vc_spur > 0 && vc_nondet_bool("spurious")) { vc_spur--; return true; } return false; }

void h_free_block_delayed_mt(void) {
  initial.b.next = 0;
  pg.xthread_free = (vc_nondet_bool("nonempty") ? (uintptr_t)&initial.b : 0) | (vc_nondet_u8("flags") & 3);
  VC_ASSUME((pg.xthread_free & 3) != MI_DELAYED_FREEING || true);
  pg.xheap = (uintptr_t)&hp; hp.thread_delayed_free = NULL; hp2.thread_delayed_free = NULL;
  vc_budget = VC_K; vc_spur = 1; vc_other = 0; my_freeing = false; pub_page = 0; pub_heap = 0; heap_pushed = false;
  mi_free_block_delayed_mt(&pg, &mine.b);
  __CPROVER_assert(pub_page + pub_heap == 1, "my block is published exactly once: on the page's remote list or on the heap's delayed list");
  __CPROVER_assert(!my_freeing, "the DELAYED_FREEING window is closed again on return");
  VC_REACH();
}
