/* C11/C08: empty pages are given back -- _mi_page_retire / _mi_page_free of the real page.c. */
#include "prelude.h"
#include "mimalloc.h"
#include "mimalloc/internal.h"
#include "mimalloc/prim.h"
#include "contracts/stubs.h"
/* (init.c is not part of this translation unit: the page -> heap cast would be split over its large statics) */
#include "src/page.c"
#include "contracts/page_free.h"
static void build(void) {
  g_fheap = malloc(sizeof(mi_heap_t)); g_ftld = malloc(sizeof(mi_tld_t)); g_fpage = malloc(sizeof(mi_page_t));
  __CPROVER_assume(g_fheap != NULL && g_ftld != NULL && g_fpage != NULL);
  g_fheap->tld = g_ftld; g_fpage->xheap = (uintptr_t)g_fheap;          /* assigned, not assumed: provenance */
  g_rmin0 = vc_nondet_size("g_rmin0"); g_rmax0 = vc_nondet_size("g_rmax0"); g_bin = vc_nondet_size("g_bin");
  g_qr_n = 0; g_spf_n = 0; g_pf_n = 0;
}
void h_page_free(void) { build(); mi_page_queue_t* pq = &g_fheap->pages[vc_nondet_size("bin") % (MI_BIN_FULL + 1)]; _mi_page_free(g_fpage, pq, vc_nondet_bool("force")); VC_REACH(); }
void h_page_retire(void) {
  build();
  g_bin = (mi_page_is_in_full(g_fpage) ? MI_BIN_FULL : (mi_page_is_huge(g_fpage) ? MI_BIN_HUGE : _mi_bin(g_fpage->block_size)));
  _mi_page_retire(g_fpage); VC_REACH();
}
void h_page_abandon(void) { build(); g_spa_n = 0; mi_page_queue_t* pq = &g_fheap->pages[vc_nondet_size("bin") % (MI_BIN_FULL + 1)]; _mi_page_abandon(g_fpage, pq); VC_REACH(); }
void h_collect_retired(void) {
  build(); g_rex0 = vc_nondet_u8("g_rex0"); g_allfree = vc_nondet_bool("g_allfree");
  for (size_t i = 0; i <= MI_BIN_FULL; i++) { g_fheap->pages[i].first = NULL; g_fheap->pages[i].last = NULL; }
  __CPROVER_assume(g_bin <= MI_BIN_FULL);
  g_fheap->pages[g_bin].first = g_fpage; g_fheap->pages[g_bin].last = g_fpage;
  _mi_heap_collect_retired(g_fheap, vc_nondet_bool("force")); VC_REACH();
}
