/* C09/C11: _mi_segment_page_free / _mi_segment_page_abandon of the real segment.c (SCALED) */
#include "prelude.h"
#include "mimalloc.h"
#include "mimalloc/internal.h"
#include "mimalloc/prim.h"
#include "contracts/c16.h"
#include "contracts/stubs.h"
#include "src/segment.c"
#include "contracts/seg_pagefree.h"
#ifndef VC_SI
#define VC_SI 3
#endif
static void build(void) {
  g_pseg = malloc(sizeof(mi_segment_t));
  __CPROVER_assume(g_pseg != NULL);
  g_ppage = (mi_page_t*)&g_pseg->slices[VC_SI];
  g_pu_after = vc_nondet_size("g_pu_after"); g_ab0 = vc_nondet_size("g_ab0");
  g_clr_n = 0; g_sfree_n = 0; g_sab_n = 0; g_stp_n = 0;
}
void h_segment_page_free(void) { build(); mi_segments_tld_t* tld; _mi_segment_page_free(g_ppage, vc_nondet_bool("force"), tld); VC_REACH(); }
void h_segment_page_abandon(void) { build(); mi_segments_tld_t* tld = malloc(sizeof(mi_segments_tld_t)); __CPROVER_assume(tld != NULL); mi_stats_t* st = malloc(sizeof(mi_stats_t)); __CPROVER_assume(st != NULL); tld->stats = st; _mi_segment_page_abandon(g_ppage, tld); VC_REACH(); }
void h_page_clear(void) {
  build(); g_pused0 = vc_nondet_size("g_pused0"); g_sc0 = vc_nondet_u32("g_sc0"); g_so0 = vc_nondet_u32("g_so0"); g_tag0 = vc_nondet_u8("g_tag0"); g_co_n = 0;
  mi_segments_tld_t* tld; mi_slice_t* r = mi_segment_page_clear(g_ppage, tld); VC_REACH();
}
void h_segment_free(void) {
  build();
  g_sosf_n = 0; g_srm_n = 0;
  /* segment well-formed: every slice entry that can be a span head carries a positive count that stays inside the table (assumed for ALL entries here: the
     walk may land on any of them) */
  for (size_t i = 0; i < MI_SLICES_PER_SEGMENT; i++) { __CPROVER_assume(g_pseg->slices[i].slice_count >= 1 && i + g_pseg->slices[i].slice_count <= g_pseg->slice_entries + (i >= g_pseg->slice_entries ? MI_SLICES_PER_SEGMENT : 0)); }
  mi_segments_tld_t* tld; mi_segment_free(g_pseg, vc_nondet_bool("force"), tld); VC_REACH();
}
