/* C20: the real mi_option_init (options.c + libc.c) is memory-safe for EVERY environment value of up to 64 characters
   (every byte symbolic) and every option descriptor; strstr/strtol are over-approximated (any result ISO C allows). */
#include "prelude.h"
#include "mimalloc.h"
#include "mimalloc/internal.h"
#include "mimalloc/prim.h"
#define VC_HAVE_OPTIONS_C
#include "contracts/stubs.h"
#include "src/libc.c"
#include "src/options.c"
static char vc_env[65];
static bool vc_found;
bool _mi_prim_getenv(const char* name, char* result, size_t result_size) {
  (void)name; if (!vc_found) return false;
  __CPROVER_assert(result_size >= 65, "callers pass a buffer of at least 65 bytes");
  for (size_t i = 0; i < 65; i++) result[i] = vc_env[i];      /* at most 64 characters + terminator, arbitrary content */
  return true;
}
void _mi_prim_out_stderr(const char* msg) { (void)msg; }
bool _mi_preloading(void) { return vc_nondet_bool("preloading"); }
mi_msecs_t _mi_clock_now(void) { return 0; }
bool _mi_is_main_thread(void) { return true; }
mi_threadid_t _mi_thread_id(void) { return 1; }
/* ISO C over-approximations: strstr returns NULL or a pointer into the haystack; strtol returns any value and leaves
   *end anywhere between the start and the terminator of the string */
char* strstr(const char* h, const char* n) { (void)n; size_t len = 0; while (h[len] != 0) len++; size_t k = vc_nondet_size("k"); if (k > len) return NULL; return (char*)h + k; }
long strtol(const char* s, char** end, int base) { (void)base; size_t len = 0; while (s[len] != 0) len++; size_t k = vc_nondet_size("k"); __CPROVER_assume(k <= len); if (end) *end = (char*)s + k; return vc_nondet_long("v"); }
void h_opt_sym(void) {
  for (size_t i = 0; i < 64; i++) vc_env[i] = (char)vc_nondet_u8("c");
  vc_env[64] = 0;
  vc_found = vc_nondet_bool("found");
  size_t o = (size_t)VC_OPT;       /* one run per option descriptor (a symbolic descriptor makes symex run out of memory) */
  options[o].init = UNINIT;
  mi_option_init(&options[o]);
  VC_ASSERT(vc_found ==> options[o].init != UNINIT, "an option found in the environment is initialised after parsing");
  VC_REACH();
}
