/* C07: mi_segment_os_alloc in the real segment.c (SCALED) */
#include "prelude.h"
#include "mimalloc.h"
#include "mimalloc/internal.h"
#include "mimalloc/prim.h"
#include "contracts/c16.h"
#include "contracts/stubs.h"
#include "src/segment.c"
#include "contracts/seg_alloc.h"
void h_segment_os_alloc(void) {
  g_slices0 = vc_nondet_size("g_slices0"); g_info0 = vc_nondet_size("g_info0"); g_aa_committed = vc_nondet_bool("g_aa_committed"); g_aa_pinned = vc_nondet_bool("g_aa_pinned");
  g_oscommit_ret2 = vc_nondet_bool("g_oscommit_ret2");
  size_t* ps; size_t* pi; mi_segments_tld_t* tld;
  mi_segment_t* s = mi_segment_os_alloc(vc_nondet_size("required"), vc_nondet_size("page_alignment"), vc_nondet_bool("eager_delayed"), vc_nondet_int("req_arena_id"), ps, pi, vc_nondet_bool("commit"), tld);
  VC_REACH();
}
void h_segment_os_free(void) { g_rc0 = vc_nondet_size("g_rc0"); mi_segment_t* s; mi_segments_tld_t* tld; mi_segment_os_free(s, tld); VC_REACH(); }
void h_track_size(void) { mi_segments_tld_t* tld; mi_segments_track_size(vc_nondet_long("segment_size"), tld); VC_REACH(); }
