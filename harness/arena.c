/* C07/C11/C13/C14/C15/C18: the real arena.c (+arena-abandon.c); bitmap.c and os.c are contracts here. */
#include "prelude.h"
#include "mimalloc.h"
#include "mimalloc/internal.h"
#include "mimalloc/prim.h"
#include "contracts/c16.h"
#include "contracts/stubs.h"
#include <errno.h>
#undef errno
int vc_errno;
#define errno vc_errno
#include "src/arena.c"
#include "contracts/arena.h"
#include "contracts/abandon.h"
static void draw(void) {
  g_claim_ok = vc_nondet_bool("g_claim_ok"); g_claim_idx = vc_nondet_size("g_claim_idx"); g_dirty_allzero = vc_nondet_bool("g_dirty_allzero");
  g_cm_allzero = vc_nondet_bool("g_cm_allzero"); g_cm_anyzero = vc_nondet_bool("g_cm_anyzero"); g_cm_already = vc_nondet_size("g_cm_already");
  g_cm_isclaimed = vc_nondet_bool("g_cm_isclaimed"); g_inuse_allset = vc_nondet_bool("g_inuse_allset");
  g_commit_ok = vc_nondet_bool("g_commit_ok"); g_commit_zero = vc_nondet_bool("g_commit_zero"); g_ospurge_ret = vc_nondet_bool("g_ospurge_ret");
  g_delay = vc_nondet_long("g_delay"); g_now = vc_nondet_i64("g_now"); g_preloading = vc_nondet_bool("g_preloading");
  g_aexpire0 = vc_nondet_i64("g_aexpire0"); g_gexpire0 = vc_nondet_i64("g_gexpire0"); g_arena_slot = vc_nondet_size("g_arena_slot");
}
void h_try_alloc_at(void) { draw(); mi_arena_t* a; mi_memid_t* m; void* p = mi_arena_try_alloc_at(a, vc_nondet_size("arena_index"), vc_nondet_size("needed_bcount"), vc_nondet_bool("commit"), m); VC_REACH(); }
void h_arena_purge(void) { draw(); mi_arena_t* a; mi_arena_purge(a, vc_nondet_size("bitmap_idx"), vc_nondet_size("blocks")); VC_REACH(); }
void h_schedule_purge(void) { draw(); mi_arena_t* a; mi_arena_schedule_purge(a, vc_nondet_size("bitmap_idx"), vc_nondet_size("blocks")); VC_REACH(); }
void h_arena_free(void) { draw(); void* p; mi_memid_t memid; _mi_arena_free(p, vc_nondet_size("size"), vc_nondet_size("committed_size"), memid); VC_REACH(); }
void h_id_suitable(void) { bool r = mi_arena_id_is_suitable(vc_nondet_int("arena_id"), vc_nondet_bool("excl"), vc_nondet_int("req")); VC_REACH(); }
void h_memid_suitable(void) { mi_memid_t memid; bool r = _mi_arena_memid_is_suitable(memid, vc_nondet_int("req")); VC_REACH(); }
void h_alloc_aligned(void) { draw(); /* g_opt[] (every option value) is nondeterministic under dfcc */ g_reserve_ret = vc_nondet_bool("g_reserve_ret"); mi_memid_t* m;
  void* p = _mi_arena_alloc_aligned(vc_nondet_size("size"), vc_nondet_size("alignment"), vc_nondet_size("align_offset"), vc_nondet_bool("commit"), vc_nondet_bool("allow_large"), vc_nondet_int("req_arena_id"), m); VC_REACH(); }
void h_try_alloc_at_id(void) { mi_memid_t* m; void* p = mi_arena_try_alloc_at_id(vc_nondet_int("arena_id"), vc_nondet_bool("match"), vc_nondet_int("numa"), vc_nondet_size("size"), vc_nondet_size("alignment"), vc_nondet_bool("commit"), vc_nondet_bool("allow_large"), vc_nondet_int("req"), m); VC_REACH(); }
void h_manage_os_memory(void) {
  g_add_ret = vc_nondet_bool("g_add_ret"); g_roff = vc_nondet_size("g_roff");
  static uint8_t region[1]; g_region = region;          /* only addresses inside the caller's region are computed, never dereferenced */
  mi_memid_t memid; mi_arena_id_t* aid;
  bool r = mi_manage_os_memory_ex2(g_region + g_roff, vc_nondet_size("size"), vc_nondet_bool("is_large"), vc_nondet_int("numa"), vc_nondet_bool("exclusive"), memid, aid);
  VC_REACH();
}
static void adraw(void) { g_was_set = vc_nondet_bool("g_was_set"); g_bm_claim_waszero = vc_nondet_bool("g_bm_claim_waszero"); g_cnt0 = vc_nondet_size("g_cnt0"); g_lcnt0 = vc_nondet_size("g_lcnt0"); g_slot = vc_nondet_size("g_slot"); g_has_prev = vc_nondet_bool("g_has_prev"); g_has_next = vc_nondet_bool("g_has_next"); }
void h_clear_abandoned(void) { adraw(); mi_segment_t* s; bool r = _mi_arena_segment_clear_abandoned(s); VC_REACH(); }
void h_mark_abandoned(void) { adraw(); mi_segment_t* s; _mi_arena_segment_mark_abandoned(s); VC_REACH(); }
void h_clear_abandoned_at(void) { adraw(); mi_arena_t* a; mi_subproc_t* sp; mi_segment_t* s = mi_arena_segment_clear_abandoned_at(a, sp, vc_nondet_size("bitmap_idx")); VC_REACH(); }
void h_os_clear_abandoned(void) { adraw(); mi_segment_t* s; bool r = mi_arena_segment_os_clear_abandoned(s, vc_nondet_bool("take_lock")); VC_REACH(); }
void h_abandoned_visit(void) { mi_block_visit_fun* v; void* arg; bool r = mi_abandoned_visit_blocks((mi_subproc_id_t)0, vc_nondet_int("tag"), vc_nondet_bool("visit_blocks"), v, arg); VC_REACH(); }
