/* C03/C04/C05/C06: the real alloc-aligned.c; the underlying allocator, free, usable-size are contracts. */
#include "prelude.h"
#include "mimalloc.h"
#include "mimalloc/internal.h"
#include "mimalloc/prim.h"
#include "contracts/stubs.h"
uint8_t* g_pobj; size_t g_ppad;     /* the old block of a re-allocation lives at g_pobj + g_ppad */
#include "src/alloc-aligned.c"
#include "contracts/aligned.h"

static void draw(void) {
  g_pad = vc_nondet_size("g_pad"); g_bsize = vc_nondet_size("g_bsize"); g_k = vc_nondet_size("g_k"); g_kk = vc_nondet_size("g_kk");
  g_usable_old = vc_nondet_size("g_usable_old"); g_req_old = vc_nondet_size("g_req_old"); g_pbyte = vc_nondet_u8("g_pbyte"); g_ppad = vc_nondet_size("g_ppad");
}
void h_overalloc(void) { draw(); mi_heap_t* heap; void* r = mi_heap_malloc_zero_aligned_at_overalloc(heap, vc_nondet_size("size"), vc_nondet_size("alignment"), vc_nondet_size("offset"), vc_nondet_bool("zero")); VC_REACH(); }
void h_generic(void)   { draw(); mi_heap_t* heap; void* r = mi_heap_malloc_zero_aligned_at_generic(heap, vc_nondet_size("size"), vc_nondet_size("alignment"), vc_nondet_size("offset"), vc_nondet_bool("zero")); VC_REACH(); }
void h_entry(void)     { draw(); mi_heap_t* heap; void* r = mi_heap_malloc_zero_aligned_at(heap, vc_nondet_size("size"), vc_nondet_size("alignment"), vc_nondet_size("offset"), vc_nondet_bool("zero")); VC_REACH(); }
void h_realloc_aligned(void) { draw(); mi_heap_t* heap; void* p; void* r = mi_heap_realloc_zero_aligned_at(heap, p, vc_nondet_size("newsize"), vc_nondet_size("alignment"), vc_nondet_size("offset"), vc_nondet_bool("zero")); VC_REACH(); }
