/* C14/C13/C18: one purge pass over an arena -- the real arena.c and the real bitmap.c, sequential. */
#include "prelude.h"
#include "mimalloc.h"
#include "mimalloc/internal.h"
#include "mimalloc/prim.h"
#include "contracts/c16.h"
#include "contracts/stubs.h"
#include "src/arena.c"
#include "src/bitmap.c"
#include "contracts/arena_try_purge.h"

/* OS layer below arena.c (its own contracts: C13 os_purge_ex): recorder bodies that map the byte range back to arena blocks */
static uint8_t vc_area[1];
bool _mi_os_purge_ex(void* p, size_t size, bool allow_reset, size_t stat_size) {
  (void)allow_reset; (void)stat_size;
  g_osp_n++;
  size_t off = (size_t)((uintptr_t)p - (uintptr_t)g_arena->start);     /* (integers: the arena's memory itself is not modelled) */
  if (!__CPROVER_same_object(p, g_arena->start) || off % MI_ARENA_BLOCK_SIZE != 0 || size % MI_ARENA_BLOCK_SIZE != 0 || size == 0 ||
      off / MI_ARENA_BLOCK_SIZE + size / MI_ARENA_BLOCK_SIZE > g_arena->block_count) g_osp_outside = true;
  else if (off / MI_ARENA_BLOCK_SIZE <= g_wb && g_wb < off / MI_ARENA_BLOCK_SIZE + size / MI_ARENA_BLOCK_SIZE) g_osp_w = true;
  return vc_nd_bool();
}
bool _mi_os_purge(void* p, size_t size) { return _mi_os_purge_ex(p, size, true, size); }

static mi_arena_t* build(void) {
  g_iu0 = vc_nondet_size("g_iu0"); g_pu0 = vc_nondet_size("g_pu0"); g_cmt0 = vc_nondet_size("g_cmt0"); g_aexp0 = vc_nondet_i64("g_aexp0"); g_wb = vc_nondet_size("g_wb");
  mi_arena_t* a = malloc(sizeof(mi_arena_t) + 4 * sizeof(mi_bitmap_field_t));
  __CPROVER_assume(a != NULL);
  a->field_count = 1; a->block_count = MI_BITMAP_FIELD_BITS;
  a->blocks_dirty = &a->blocks_inuse[1]; a->blocks_committed = &a->blocks_inuse[2]; a->blocks_purge = &a->blocks_inuse[3]; a->blocks_abandoned = &a->blocks_inuse[4];
  a->start = vc_area;        /* only the address is used: block addresses are computed, never dereferenced */
  a->blocks_inuse[0] = g_iu0; a->blocks_purge[0] = g_pu0; a->blocks_committed[0] = g_cmt0; a->purge_expire = g_aexp0;
  g_arena = a; g_iu = &a->blocks_inuse[0]; g_cm = &a->blocks_inuse[2]; g_pu = &a->blocks_inuse[3]; g_osp_n = 0; g_osp_w = false; g_osp_outside = false;
  return a;
}
void h_arena_try_purge(void) { mi_arena_t* a = build(); bool r = mi_arena_try_purge(a, vc_nondet_i64("now"), vc_nondet_bool("force")); VC_REACH(); }
void h_purge_range(void) { mi_arena_t* a = build(); bool r = mi_arena_purge_range(a, vc_nondet_size("idx"), vc_nondet_size("startidx"), vc_nondet_size("bitlen"), vc_nondet_size("purge")); VC_REACH(); }
void h_arena_purge_seq(void) { mi_arena_t* a = build(); mi_arena_purge(a, vc_nondet_size("bitmap_idx"), vc_nondet_size("blocks")); VC_REACH(); }
void h_bm_try_claim(void) { mi_arena_t* a = build(); bool r = _mi_bitmap_try_claim(a->blocks_inuse, 1, vc_nondet_size("count"), vc_nondet_size("bitmap_idx")); VC_REACH(); }
void h_bm_unclaim(void) { mi_arena_t* a = build(); bool r = _mi_bitmap_unclaim(a->blocks_inuse, 1, vc_nondet_size("count"), vc_nondet_size("bitmap_idx")); VC_REACH(); }
void h_bm_claim(void) { mi_arena_t* a = build(); bool r = _mi_bitmap_claim(a->blocks_inuse, 1, vc_nondet_size("count"), vc_nondet_size("bitmap_idx"), NULL); VC_REACH(); }
