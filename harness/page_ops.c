/* C01/C08/C10: the real page.c (which includes page-queue.c) */
#include "prelude.h"
#include "mimalloc.h"
#include "mimalloc/internal.h"
#include "mimalloc/prim.h"
#ifndef VC_BS
#define VC_BS 48
#endif
#include "contracts/stubs.h"
#include "src/init.c"
#include "src/page.c"
#include "contracts/page_ops.h"
void h_unfull(void) { mi_page_t* page; _mi_page_unfull(page); VC_REACH(); }
void h_to_full(void) { mi_page_t* page; mi_page_queue_t* pq; mi_page_to_full(page, pq); VC_REACH(); }
void h_extend_free(void) { g_cap0 = vc_nondet_u16("g_cap0"); mi_heap_t* heap; mi_page_t* page; mi_tld_t* tld; mi_page_extend_free(heap, page, tld); VC_REACH(); }
void h_malloc_generic(void) { g_gc0 = vc_nondet_u32("g_gc0"); g_f1_null = vc_nondet_bool("g_f1_null"); g_f2_null = vc_nondet_bool("g_f2_null"); mi_heap_t* heap; void* p = _mi_malloc_generic(heap, vc_nondet_size("size"), vc_nondet_bool("zero"), vc_nondet_size("huge_alignment")); VC_REACH(); }
