#!/usr/bin/env python3
"""vc.py -- contract-check runner for /verif (CBMC 6.11 code contracts on the real mimalloc sources).

Usage:  vc.py <property-id> [quick|thorough] [--only <pair-substring>] [--keep] [--jobs N]
        vc.py --replay <replay.json>

Exit codes: 0 = every obligation of every pair discharged (known findings printed, not counted)
            1 = at least one obligation failed  (VIOLATION line printed)
            2 = undecided / tool error / vacuity guard tripped (UNDECIDED line printed), never a pass
"""
import sys, os, json, time, subprocess, shutil, re, importlib.util, resource, hashlib, glob
from concurrent.futures import ThreadPoolExecutor

VERIF = os.path.dirname(os.path.abspath(__file__))
REPO = os.environ.get("VC_REPO", "/repo")
BUILD = os.path.join(VERIF, ".build")

CONFIGS = {
    # the test-suite build: MI_DEBUG 0, MI_SECURE 0, no padding
    "REL":    ["-DMI_BUILD_RELEASE", "-DNDEBUG"],
    # hardened build: padding, encoded free lists, double-free check
    "SEC4":   ["-DMI_SECURE=4", "-DNDEBUG"],
    # debug build (padding + assertions compiled, MI_DEBUG=2)
    "DBG":    ["-DMI_DEBUG=2"],
    # same source, 64 slices per segment (smallest value types.h accepts)
    "SCALED": ["-DMI_BUILD_RELEASE", "-DNDEBUG", "-DMI_SEGMENT_SHIFT=22"],
    "SEC4SCALED": ["-DMI_SECURE=4", "-DNDEBUG", "-DMI_SEGMENT_SHIFT=22"],
    # override build of alloc.c (alias form)
    "OVR":    ["-DMI_BUILD_RELEASE", "-DNDEBUG", "-DMI_MALLOC_OVERRIDE"],
}

LOG_POISON = [
    "ignoring forall", "ignoring exists", "no body for", "not enough arguments",
    "Loops remain", "invariant violation report", "Invariant check failed",
]

TRUSTED_COMMON = [
    "src/prim/** not compiled: _mi_prim_* replaced by (assumed) contracts",
    "CBMC object/offset memory model: distinct objects never alias, no address reuse",
    "x86-64 LP64 bit-precise machine arithmetic (not mathematical integers)",
    "__builtin_assume_aligned := identity",
    "memset/memcpy/_mi_memzero/_mi_memcpy of symbolic length replaced by witness-byte contracts where stated",
    "atomics: CBMC sequential models (non-RG pairs) or /verif/stubs/rg/stdatomic.h with interference hook (RG pairs); sequential consistency assumed",
    "induction over histories (every mutator keeps the invariant => every history) is the standard meta-theorem, not re-proved",
]


def log(*a):
    print(*a, flush=True)


def load_plan(prop):
    path = os.path.join(VERIF, "plan", prop + ".py")
    if not os.path.exists(path):
        log("UNDECIDED property=%s reason=no-plan" % prop)
        sys.exit(2)
    spec = importlib.util.spec_from_file_location("plan_" + prop, path)
    mod = importlib.util.module_from_spec(spec)
    sys.path.insert(0, os.path.join(VERIF, "plan"))
    spec.loader.exec_module(mod)
    return mod


def limit(mem_gb):
    def f():
        b = int(mem_gb * (1 << 30))
        resource.setrlimit(resource.RLIMIT_AS, (b, b))
        os.setsid()
    return f


def run(cmd, timeout, mem_gb=12, cwd=None):
    t0 = time.time()
    try:
        p = subprocess.Popen(cmd, stdout=subprocess.PIPE, stderr=subprocess.PIPE, cwd=cwd,
                             preexec_fn=limit(mem_gb))
        try:
            out, err = p.communicate(timeout=timeout)
        except subprocess.TimeoutExpired:
            try:
                os.killpg(p.pid, 9)
            except Exception:
                p.kill()
            p.communicate()
            return None, "", "TIMEOUT after %ss" % timeout, time.time() - t0
        return p.returncode, out.decode("utf-8", "replace"), err.decode("utf-8", "replace"), time.time() - t0
    except Exception as e:
        return -1, "", "EXC %r" % (e,), time.time() - t0


def gen_loop_contracts(pair, d, agb, timeout):
    """Attach loop contracts to unmodified functions: resolve base names of locals to the
    goto symbol names (which depend on block nesting) from the symbol table of this build."""
    src = os.path.join(VERIF, pair["loops"])
    spec = json.load(open(src))
    consts = {}
    if spec.get("consts"):
        # compile-time constants of the configuration under check (sizeof, limits), evaluated natively with the pair's -D flags;
        # the loop-contract file is parsed outside the translation unit, so macros and type names are not available there
        names = sorted(spec["consts"])
        csrc = os.path.join(d, "consts.c")
        open(csrc, "w").write('#include <stdio.h>\n#include "mimalloc.h"\n#include "mimalloc/internal.h"\nint main(void){' +
                              "".join('printf("%%llu\\n",(unsigned long long)(%s));' % spec["consts"][n] for n in names) + "return 0;}\n")
        flags = list(CONFIGS[pair.get("config", "REL")]) + list(pair.get("defs", []))
        rc, out, err, _ = run(["gcc", "-std=gnu11", "-I" + os.path.join(REPO, "include")] + flags + [csrc, "-o", os.path.join(d, "consts")], 120, 8)
        if rc != 0:
            return None, "loop-contract consts: " + err[-300:]
        rc, out, err, _ = run([os.path.join(d, "consts")], 30, 8)
        vals = out.split()
        if rc != 0 or len(vals) != len(names):
            return None, "loop-contract consts run: " + (err or out)[-300:]
        consts = dict(zip(names, vals))
    def subst(t):
        for n in sorted(consts, key=len, reverse=True):
            t = t.replace("$" + n, consts[n] + "ul")
        return t
    rc, out, err, _ = run(["goto-instrument", "--show-symbol-table", agb], timeout, 8)
    if rc != 0:
        return None, "symbol table: " + err[-300:]
    syms = re.findall(r"^Symbol\.*: (\S+)", out, re.M)
    fentries = []
    for fn, loops in spec["functions"].items():
        names = set()
        for l in loops:
            for n in l.get("symbols", []):
                names.add(n)
        mp = []
        for n in sorted(names):
            cands = [s for s in syms if s.startswith(fn + "::") and s.split("::")[-1] == n]
            if len(cands) != 1:
                return None, "loop-contract symbol %s in %s: %d candidates %r" % (n, fn, len(cands), cands[:4])
            mp.append("%s,%s" % (n, cands[0]))
        ents = []
        for l in loops:
            e = {"loop_id": str(l["loop"])}
            for k in ("invariants", "assigns", "decreases"):
                if k in l:
                    e[k] = subst(l[k])
            e["symbol_map"] = ";".join(mp)
            ents.append(e)
        fentries.append({fn: ents})
    # format expected by goto-instrument: {"sources": {...}} or {"functions":[{fn:[{"loop N":{...}}]}]}
    out_path = os.path.join(d, "loops.json")
    json.dump({"sources": [], "functions": fentries, "output": "OUTPUT"}, open(out_path, "w"), indent=1)
    return out_path, None


def check_pair(prop, pair, tier, keep):
    """Returns a result dict for one (function, contract) pair."""
    name = pair["name"]
    d = os.path.join(BUILD, prop, re.sub(r"[^A-Za-z0-9_.-]", "_", name))
    shutil.rmtree(d, ignore_errors=True)
    os.makedirs(d)
    res = {"name": name, "label": pair.get("label", "P"), "config": pair.get("config", "REL"),
           "enforce": pair.get("enforce"), "replace": pair.get("replace", []),
           "status": "ok", "obligations": 0, "discharged": 0, "failed": [], "unwind_failed": [], "unknown": [],
           "reason": "", "solver_s": 0.0, "wall_s": 0.0, "backend": "cbmc-6.11 SAT (minisat2)",
           "K": pair.get("K"), "functions": pair.get("functions", [])}
    t0 = time.time()
    timeout = pair.get("timeout", 120 if tier == "quick" else 900)
    if tier == "thorough":
        timeout = max(timeout, pair.get("timeout_thorough", timeout))
    entry = pair.get("entry", "h_" + name.split("/")[-1])
    harness = os.path.join(VERIF, pair["harness"])
    flags = list(CONFIGS[pair.get("config", "REL")]) + list(pair.get("defs", []))
    inc = ["-I" + os.path.join(REPO, "include"), "-I" + REPO, "-I" + os.path.join(REPO, "src"), "-I" + VERIF,
           "-I" + os.path.join(VERIF, "stubs")]
    if pair.get("rg"):
        inc = ["-isystem", os.path.join(VERIF, "stubs", "rg")] + inc
    agb = os.path.join(d, "a.gb")
    cmd = ["goto-cc", "-std=gnu11", "-DVC_CBMC", "-DVC_ENTRY=" + entry] + flags + inc + \
          ["--function", entry, harness, "-o", agb]
    res["cmds"] = [" ".join(cmd)]
    rc, out, err, _ = run(cmd, 300)
    open(os.path.join(d, "cc.log"), "w").write(out + err)
    if rc != 0:
        res.update(status="error", reason="goto-cc failed: " + (err or out)[-600:])
        res["wall_s"] = time.time() - t0
        return res
    if pair.get("must_define"):
        rc0, out0, err0, _ = run(["goto-instrument", "--list-goto-functions", agb], 120, 8)
        have = set(m.group(1) for m in re.finditer(r"^(\S+) /\* [^*]*\*/$", out0, re.M) if "body not available" not in m.group(0))
        missing = [n for n in pair["must_define"] if n not in have]
        if missing:
            res["status"] = "failed"
            res["failed"] = [{"id": "defined." + n, "text": "required entry point %s is not defined by the translation unit" % n, "loc": {}} for n in missing]
            res["obligations"] = len(pair["must_define"])
            res["wall_s"] = time.time() - t0
            return res
    final = agb
    mode = pair.get("mode", "dfcc")
    if pair.get("remove_body"):
        # diagnostics/statistics callees whose bodies are irrelevant to the obligation: made bodyless (nondet result, no effect)
        rgb = os.path.join(d, "r.gb")
        r0 = os.path.join(d, "r0.gb")
        cmd = ["goto-instrument"] + sum([["--remove-function-body", f] for f in pair["remove_body"]], []) + [agb, r0]
        res["cmds"].append(" ".join(cmd))
        rc, out, err, _ = run(cmd, 300, 8)
        if rc == 0:
            cmd = ["goto-instrument", "--generate-function-body", "^(" + "|".join(pair["remove_body"]) + ")$",
                   "--generate-function-body-options", pair.get("remove_body_opt", "nondet-return"), r0, rgb]
            res["cmds"].append(" ".join(cmd))
            rc, out, err, _ = run(cmd, 300, 8)
        if rc != 0:
            res.update(status="error", reason="remove-function-body failed: " + (err or out)[-300:])
            res["wall_s"] = time.time() - t0
            return res
        agb = rgb
        final = rgb
    if pair.get("stub_bodies"):
        # assumed bodies for file-static callees (listed as assumptions like a replaced contract): the real body is dropped and a body
        # from stubs/bodies/*.c is linked in.  Used where the callee returns a pointer: a contract result that is only *assumed* equal to
        # NULL / a fresh object has no provenance in CBMC and every later dereference splits over all objects.
        sb = pair["stub_bodies"]
        rc0, out0, err0, _ = run(["goto-instrument", "--list-goto-functions", agb], 120, 8)
        have = set(m.group(1) for m in re.finditer(r"^(\S+) /\* [^*]*\*/$", out0, re.M) if "body not available" not in m.group(0))
        missing = [f for f in sb["remove"] if f not in have]
        if missing:
            res.update(status="error", reason="stub_bodies: %s not defined by the translation unit (renamed?)" % ",".join(missing))
            res["wall_s"] = time.time() - t0
            return res
        r0 = os.path.join(d, "sb0.gb"); sgb = os.path.join(d, "sb1.gb"); lgb = os.path.join(d, "sb.gb")
        cmds = [["goto-instrument"] + sum([["--remove-function-body", f] for f in sb["remove"]], []) + [agb, r0],
                ["goto-cc", "-std=gnu11", "-DVC_CBMC", "-c"] + flags + inc + [os.path.join(VERIF, sb["src"]), "-o", sgb],
                ["goto-cc", r0, sgb, "--function", entry, "-o", lgb]]
        for c in cmds:
            res["cmds"].append(" ".join(c))
            rc, out, err, _ = run(c, 300, 8)
            if rc != 0:
                res.update(status="error", reason="stub_bodies step failed: " + (err or out)[-400:])
                res["wall_s"] = time.time() - t0
                return res
        agb = lgb
        final = lgb
    if mode == "dfcc":
        bgb = os.path.join(d, "b.gb")
        cmd = ["goto-instrument"]
        if pair.get("loops"):
            lp, e = gen_loop_contracts(pair, d, agb, 120)
            if lp is None:
                res.update(status="error", reason=e)
                res["wall_s"] = time.time() - t0
                return res
            cmd += ["--loop-contracts-file", lp]
        cmd += ["--dfcc", entry]
        enf = pair.get("enforce")
        if enf:
            cmd += ["--enforce-contract", enf]
        replace = list(pair.get("replace", []))
        if pair.get("loops") or pair.get("apply_loops"):
            cmd += ["--apply-loop-contracts"]
        cmd += list(pair.get("gi_flags", []))
        base_cmd = cmd
        while True:
            cmd = list(base_cmd)
            for r in replace:
                cmd += ["--replace-call-with-contract", r]
            cmd += [agb, bgb]
            rc, out, err, _ = run(cmd, 600, 16)
            m = re.search(r"Function to replace '([^']+)' not found", out + err)
            if rc != 0 and m and any(r.split("/")[0] == m.group(1) for r in replace):
                # a callee this translation unit never references needs no contract
                replace = [r for r in replace if r.split("/")[0] != m.group(1)]
                continue
            break
        res["replace"] = replace + ["assumed body (%s): %s" % (pair["stub_bodies"]["src"], f) for f in pair.get("stub_bodies", {}).get("remove", [])]
        res["cmds"].append(" ".join(cmd))
        open(os.path.join(d, "gi.log"), "w").write(out + err)
        if rc != 0:
            res.update(status="error", reason="goto-instrument failed: " + (re.findall(r"(?:Reason|DIAGNOSTICS >>\n)([^\n]*)", out + err) or [(err or out)[-800:]])[-1] + " | " + (err or out)[-300:])
            res["wall_s"] = time.time() - t0
            return res
        for p in LOG_POISON:
            if p in out or p in err:
                res.update(status="error", reason="goto-instrument log contains '%s'" % p)
                res["wall_s"] = time.time() - t0
                return res
        final = bgb
    unwind = pair.get("unwind", 8)
    cmd = ["cbmc", final, "--unwind", str(unwind), "--unwinding-assertions", "--json-ui",
           "--object-bits", str(pair.get("objbits", 10))]
    if pair.get("unwindset"):
        us = pair["unwindset"]
        if isinstance(us, dict):
            enf_fn = (pair.get("enforce") or "").split("/")[0]
            items = []
            for k, v in us.items():
                fn, _, n = k.rpartition(".")
                if mode == "dfcc" and fn == enf_fn:     # dfcc renames the function under contract
                    fn = fn + "_wrapped_for_contract_checking"
                items.append("%s.%s:%d" % (fn, n, v))
            us = ",".join(items)
        cmd += ["--unwindset", us]
    cmd += list(pair.get("cbmc_flags", []))
    solver = pair.get("solver", "minisat")
    if solver == "cadical":
        cmd += ["--sat-solver", "cadical"]
        res["backend"] = "cbmc-6.11 SAT (cadical)"
    elif solver == "z3":
        cmd += ["--z3"]
        res["backend"] = "cbmc-6.11 SMT2 (z3 4.8.12)"
    res["cmds"].append(" ".join(cmd))
    rc, out, err, dt = run(cmd, timeout, pair.get("mem_gb", 6))
    res["solver_s"] = round(dt, 2)
    open(os.path.join(d, "cbmc.json"), "w").write(out)
    open(os.path.join(d, "cbmc.err"), "w").write(err)
    if rc is None:
        res.update(status="timeout", reason="cbmc timeout %ss" % timeout)
        res["wall_s"] = time.time() - t0
        return res
    try:
        msgs = json.loads(out)
    except Exception as e:
        res.update(status="error", reason="cbmc output not JSON (rc=%s): %s" % (rc, (err or out)[-400:]))
        res["wall_s"] = time.time() - t0
        return res
    results = None
    texts = []
    for m in msgs:
        if isinstance(m, dict):
            if "result" in m:
                results = m["result"]
            if "messageText" in m:
                texts.append(m["messageText"])
    alltext = "\n".join(texts)
    for p in LOG_POISON:
        if p in alltext:
            res.update(status="error", reason="cbmc log contains '%s'" % p)
            res["wall_s"] = time.time() - t0
            return res
    if results is None:
        res.update(status="error", reason="no result section (rc=%s): %s" % (rc, alltext[-600:]))
        res["wall_s"] = time.time() - t0
        return res
    reach = None
    ignore = pair.get("ignore", [])     # regexes of obligation ids excluded by name, each with a reason in the plan
    samples = []
    for r in results:
        pid, desc, st = r.get("property", ""), r.get("description", ""), r.get("status", "")
        if "VC_REACH" in desc:
            if reach is None or st == "FAILURE":
                reach = st
            continue
        if any(re.search(x, pid + " " + desc) for x in ignore):
            continue
        res["obligations"] += 1
        if st == "SUCCESS":
            res["discharged"] += 1
            if len(samples) < 3 and ("postcondition" in pid or "assertion" in pid):
                samples.append({"id": pid, "text": desc[:200]})
        elif "unwind" in pid and st == "FAILURE":
            res["unwind_failed"].append(pid)
        elif st == "ERROR":
            res["solver_error"] = True
        elif st != "FAILURE":
            res["unknown"].append(pid)      # UNKNOWN: only reachable past a failed obligation
        else:
            res["failed"].append({"id": pid, "text": desc[:300], "loc": r.get("sourceLocation", {})})
    res["samples"] = samples
    if res.get("solver_error"):
        res.update(status="error", reason="solver error (out of memory?): obligations with status ERROR")
        res["wall_s"] = time.time() - t0
        return res
    if not pair.get("noreach") and not res["failed"]:      # a failed obligation blocks what follows it: report it, not vacuity
        if reach is None:
            res.update(status="error", reason="harness has no VC_REACH marker")
        elif reach != "FAILURE":
            res.update(status="vacuous", reason="VC_REACH not reachable: precondition/stub contracts contradictory")
    if res["status"] == "ok":
        mn = pair.get("min_obligations", 1)
        if res["obligations"] < mn:
            res.update(status="error", reason="only %d obligations (< %d): a contract was dropped" % (res["obligations"], mn))
        need = pair.get("need_ids", [])
        ids = " ".join(r.get("property", "") for r in results)
        for n in need:
            if not re.search(n, ids):
                res.update(status="error", reason="expected obligation id /%s/ missing: contract or loop contract dropped" % n)
    if res["status"] == "ok" and res["failed"]:
        res["status"] = "failed"
        # get a counterexample for the first failed obligations
        props = []
        for f in res["failed"][:3]:
            props += ["--property", f["id"]]
        cmd2 = cmd + ["--trace"] + props
        rc2, out2, err2, _ = run(cmd2, timeout, pair.get("mem_gb", 6))
        res["trace_inputs"] = {}
        res["trace_tail"] = []
        if rc2 is not None:
            try:
                for m in json.loads(out2):
                    if isinstance(m, dict) and "result" in m:
                        for r in m["result"]:
                            if r.get("status") == "FAILURE" and "trace" in r:
                                res["trace_inputs"][r["property"]] = extract_inputs(r["trace"])
                                res["trace_tail"] = summarize_trace(r["trace"])
            except Exception as e:
                res["trace_error"] = repr(e)
    elif res["status"] == "ok" and res["unwind_failed"]:
        res.update(status="undecided", reason="unwinding assertion failed: " + ",".join(res["unwind_failed"][:3]))
    elif res["status"] == "ok" and res["unknown"]:
        res.update(status="undecided", reason="obligations with status UNKNOWN: " + ",".join(res["unknown"][:3]))
    res["wall_s"] = round(time.time() - t0, 2)
    if not keep and res["status"] == "ok":
        for f in ("a.gb", "b.gb"):
            try:
                os.remove(os.path.join(d, f))
            except OSError:
                pass
    return res


def extract_inputs(trace):
    """values drawn through `T x = vc_nondet_<type>("x")` (named by the variable that receives the
    value), plus assignments to g_* logical variables"""
    vals = []
    pending = None
    for st in trace:
        if st.get("stepType") != "assignment":
            continue
        lhs = st.get("lhs", "")
        v = st.get("value", {})
        val = v.get("data", v.get("name"))
        if isinstance(val, str):
            val = re.sub(r"(?<=\d)(ul|l|u|ull|ll)$", "", val)
        fn = st.get("sourceLocation", {}).get("function", "")
        if fn.startswith("vc_nd_") and lhs == "vc_val":
            pending = {"draw": fn, "value": val}
            vals.append(pending)
        elif pending is not None and not fn.startswith("vc_nd_") and not lhs.startswith("return_value_") \
                and not lhs.startswith("goto_symex"):
            pending["name"] = lhs
            pending = None
        elif lhs.startswith("g_") and "[" not in lhs and "." not in lhs and not st.get("hidden"):
            vals.append({"name": lhs, "value": val, "draw": "global"})
    return vals[:400]


def summarize_trace(trace):
    out = []
    for st in trace:
        if st.get("hidden"):
            continue
        t = st.get("stepType")
        if t == "assignment":
            v = st.get("value", {})
            out.append("%s = %s @%s:%s" % (st.get("lhs"), v.get("data", v.get("name")),
                                           st.get("sourceLocation", {}).get("file", "?").split("/")[-1],
                                           st.get("sourceLocation", {}).get("line", "?")))
        elif t == "failure":
            out.append("FAILURE %s: %s" % (st.get("property"), st.get("reason")))
    return out[-120:]


def load_findings():
    p = os.path.join(VERIF, "known_findings.json")
    if os.path.exists(p):
        return json.load(open(p))
    return {"findings": [], "fixed": []}


def native_replay(prop, pair, res, rdir):
    """If the pair declares a native replay program, build and run it against the real code."""
    rp = pair.get("replay")
    if not rp:
        return None
    src = os.path.join(VERIF, rp["src"])
    exe = os.path.join(BUILD, prop, "replay_" + re.sub(r"\W", "_", pair["name"]))
    flags = list(CONFIGS[pair.get("config", "REL")]) + list(pair.get("defs", [])) + list(rp.get("defs", []))
    inputs = {}
    for pid, vals in res.get("trace_inputs", {}).items():
        for v in vals:
            if "name" in v:
                inputs[v["name"]] = v["value"]      # last assignment wins
        break
    inp = os.path.join(rdir, re.sub(r"\W", "_", pair["name"]) + ".inputs.json")
    json.dump(inputs, open(inp, "w"), indent=1)
    cmd = ["gcc", "-O0", "-g", "-std=gnu11", "-w", "-DVC_REPLAY"] + flags + \
          ["-I" + os.path.join(REPO, "include"), "-I" + REPO, "-I" + os.path.join(REPO, "src"), "-I" + VERIF,
           "-I" + os.path.join(VERIF, "stubs"), src, "-o", exe, "-lpthread"] + list(rp.get("libs", []))
    rc, out, err, _ = run(cmd, 300, 16)
    if rc != 0:
        return {"built": False, "log": (err or out)[-500:]}
    env_args = [exe, inp]
    rc, out, err, _ = run(env_args, 120, 16)
    return {"built": True, "rc": rc, "stdout": out[-2000:], "confirmed": "REPLAY-CONFIRMED" in out}


def main():
    args = sys.argv[1:]
    if not args:
        print(__doc__)
        sys.exit(2)
    if args[0] == "--replay":
        rp = json.load(open(args[1]))
        print(json.dumps(rp, indent=1)[:6000])
        if rp.get("witness_cmd"):
            sys.exit(subprocess.call(rp["witness_cmd"], shell=True, cwd=VERIF))
        sys.exit(0)
    prop = args[0]
    tier = os.environ.get("VERIF_TIER", "quick")
    only = None
    keep = False
    jobs = int(os.environ.get("VC_JOBS", "9"))
    i = 1
    while i < len(args):
        if args[i] in ("quick", "thorough"):
            tier = args[i]
        elif args[i] == "--only":
            only = args[i + 1]
            i += 1
        elif args[i] == "--keep":
            keep = True
        elif args[i] == "--jobs":
            jobs = int(args[i + 1])
            i += 1
        i += 1
    seed = int(os.environ.get("VERIF_SEED", "0") or 0)
    t0 = time.time()
    mod = load_plan(prop)
    pairs = mod.pairs(tier) if callable(getattr(mod, "pairs", None)) else mod.PAIRS
    pairs = [p for p in pairs if tier == "thorough" or p.get("tier", "quick") == "quick"]
    if only:
        pairs = [p for p in pairs if only in p["name"]]
    if not pairs:
        log("UNDECIDED property=%s reason=no-pairs" % prop)
        sys.exit(2)
    os.makedirs(os.path.join(BUILD, prop), exist_ok=True)
    if not only and os.path.realpath(REPO) == "/repo":
        shutil.rmtree(os.path.join(VERIF, "replay", prop), ignore_errors=True)
    # heavy pairs first
    order = sorted(pairs, key=lambda p: -p.get("timeout", 120))
    with ThreadPoolExecutor(max_workers=jobs) as ex:
        results = list(ex.map(lambda p: check_pair(prop, p, tier, keep), order))
    bypair = {r["name"]: r for r in results}
    pairmap = {p["name"]: p for p in pairs}
    findings = load_findings()
    known = [f for f in findings.get("findings", []) if f["property"] == prop]
    violations, undecided, known_hits = [], [], []
    rdir = os.path.join(VERIF, "replay", prop) if os.path.realpath(REPO) == "/repo" else os.path.join(BUILD, "replay_scratch", prop)
    for r in results:
        if r["status"] == "failed":
            for f in r["failed"]:
                oid = "%s/%s/%s/%s" % (prop, r["config"], r["name"], f["id"])
                kf = [k for k in known if k["pair"] == r["name"] and re.search(k["obligation"], f["id"])]
                if kf:
                    known_hits.append((kf[0], oid))
                else:
                    violations.append((r, f, oid))
        elif r["status"] != "ok":
            undecided.append(r)
    seen_kf = set()
    for k, oid in known_hits:
        if k["id"] in seen_kf:
            continue
        seen_kf.add(k["id"])
        log("KNOWN-FINDING: property=%s %s [%s; obligation %s]" % (prop, k["what"], k["id"], oid))
    seen = set()
    nviol = 0
    if violations:
        os.makedirs(rdir, exist_ok=True)
    for r, f, oid in violations:
        key = r["name"]
        if key in seen:
            continue
        seen.add(key)
        nviol += 1
        pair = pairmap[r["name"]]
        nat = native_replay(prop, pair, r, rdir)
        path = os.path.join(rdir, re.sub(r"[^A-Za-z0-9_.-]", "_", r["name"]) + ".json")
        allf = [x for (rr, x, o) in violations if rr is r]
        json.dump({"property": prop, "pair": r["name"], "config": r["config"], "label": r["label"],
                   "failed_obligations": [{"obligation": "%s/%s/%s/%s" % (prop, r["config"], r["name"], x["id"]),
                                           "text": x["text"], "loc": x["loc"]} for x in allf],
                   "enforced_contract": r["enforce"], "replaced_by_contract": r["replace"],
                   "verifier_cmds": r["cmds"], "counterexample_inputs": r.get("trace_inputs", {}),
                   "counterexample_trace_tail": r.get("trace_tail", []),
                   "native_replay": nat, "witness_cmd": pair.get("witness_cmd")},
                  open(path, "w"), indent=1)
        suffix = ""
        if not (nat and nat.get("confirmed")):
            suffix = " no-failing-input-found"
        log("VIOLATION property=%s replay=%s obligation=%s%s" % (prop, path, oid, suffix))
    for r in undecided:
        log("UNDECIDED property=%s pair=%s status=%s reason=%s" % (prop, r["name"], r["status"], r["reason"][:400]))
    # evidence
    proof_labels = ("P", "PC", "RG")
    nknown = len(known_hits)
    ob = sum(r["obligations"] for r in results if r["label"] in proof_labels) - nknown      # obligations of listed findings are reported separately
    dis = sum(r["discharged"] for r in results if r["label"] in proof_labels)
    bob = sum(r["obligations"] for r in results if r["label"] not in proof_labels)
    bdis = sum(r["discharged"] for r in results if r["label"] not in proof_labels)
    samples = []
    for r in results:
        for s in r.get("samples", [])[:1]:
            samples.append({"pair": r["name"], "obligation": s["id"], "text": s["text"]})
    trusted = list(TRUSTED_COMMON) + list(getattr(mod, "TRUSTED", []))
    repl = sorted(set(x for r in results for x in (r["replace"] or [])))
    enforced = sorted(set(r["enforce"] for r in results if r["enforce"]))
    enforced_fns = set(e.split("/")[0] for e in enforced)
    assumed_only = [x for x in repl if x.split("/")[0] not in enforced_fns]
    ev = {
        "property_id": prop, "tier": tier, "seed": seed, "level": getattr(mod, "LEVEL", "proof"),
        "coverage": {
            "obligations": ob, "discharged": dis,
            "bounded": {"obligations": bob, "discharged": bdis,
                        "pairs": [{"pair": r["name"], "K": r["K"]} for r in results if r["label"] not in proof_labels]},
            "checker_cmd": "goto-cc + goto-instrument --dfcc --enforce-contract/--replace-call-with-contract + cbmc (6.11.0, SAT back end); per-pair command lines in pairs[].cmds",
            "trusted_base": trusted + ["contract assumed, enforced nowhere in this property's plan: " + x for x in assumed_only],
            "pairs": [{"pair": r["name"], "label": r["label"], "config": r["config"], "enforce": r["enforce"],
                       "replace": r["replace"], "functions": r["functions"], "status": r["status"],
                       "obligations": r["obligations"],
                       "discharged": r["discharged"], "solver_s": r["solver_s"], "backend": r["backend"],
                       "reason": r["reason"][:200], "cmds": r["cmds"]} for r in results],
            "functions_under_contract": enforced,
            "vacuity": "each pair carries a VC_REACH marker (assert(0) after the call) that must FAIL; min obligation counts / required obligation ids per pair",
            "samples": samples[:12] or [{"pair": r["name"]} for r in results[:3]],
            "undecided_pairs": [r["name"] for r in undecided],
            "known_findings_hit": sorted(set(k["id"] for k, _ in known_hits)),
            "known_finding_obligations_failed": nknown,
            "solver_s_total": round(sum(r["solver_s"] for r in results), 1),
            "explanation": getattr(mod, "EXPLANATION", "") or "contract obligations on the real code discharged by CBMC; bounded pairs are listed under 'bounded' and never counted as proved",
        },
        "assumptions": trusted + list(getattr(mod, "NOT_DECIDED", [])),
        "wall_s": round(time.time() - t0, 2),
        "violations": nviol,
    }
    # the evidence file of record is written only by a complete run against /repo itself; partial (--only) runs and runs
    # against a scratch copy (VC_REPO, used to try seeded changes) leave their record under .build/
    official = (only is None and os.path.realpath(REPO) == "/repo")
    evdir = os.path.join(VERIF, "evidence") if official else os.path.join(BUILD, "evidence_partial")
    os.makedirs(evdir, exist_ok=True)
    json.dump(ev, open(os.path.join(evdir, prop + ".json"), "w"), indent=1)
    log("%s %s: pairs=%d obligations=%d discharged=%d bounded=%d/%d violations=%d undecided=%d wall=%.1fs" %
        (prop, tier, len(results), ob, dis, bdis, bob, nviol, len(undecided), time.time() - t0))
    if nviol:
        sys.exit(1)
    if undecided:
        sys.exit(2)
    sys.exit(0)


if __name__ == "__main__":
    main()
